#!/usr/bin/env python3
"""Run every check (quick) against every seeded change and print/store the detection matrix.
usage: seed_matrix.py [seed ids...]   (default: all under seeded/)"""
import json, os, subprocess, sys, shutil
VERIF = os.path.dirname(os.path.dirname(os.path.abspath(__file__)))
CHECKS = ['C%02d' % i for i in range(1, 21)]
def sh(cmd, **kw): return subprocess.run(cmd, shell=True, capture_output=True, text=True, **kw)
def main():
    seeds = sys.argv[1:] or sorted(os.listdir(os.path.join(VERIF, 'seeded')))
    out_path = os.path.join(VERIF, 'seeded', 'MATRIX.json')
    matrix = json.load(open(out_path)) if os.path.exists(out_path) else {}
    for s in seeds:
        wt = '/tmp/seedrun/%s' % s
        sh('git -C /repo worktree remove --force %s' % wt); shutil.rmtree(wt, ignore_errors=True)
        os.makedirs('/tmp/seedrun', exist_ok=True)
        sh('git -C /repo worktree add -f %s HEAD' % wt)
        if sh('git -C %s apply %s' % (wt, os.path.join(VERIF, 'seeded', s, 'patch.diff'))).returncode != 0:
            print(s, 'patch does not apply'); continue
        row = matrix.get(s, {})
        for c in CHECKS:
            r = sh('cd %s && /venv/bin/python check.py %s --tier quick' % (VERIF, c), env=dict(os.environ, PI2_REPO=wt), timeout=3600)
            row[c] = 'V' if r.returncode == 1 else ('.' if r.returncode == 0 else 'E')
            print(s, c, row[c], flush=True)
        matrix[s] = row
        json.dump(matrix, open(out_path, 'w'), indent=1, sort_keys=True)
        sh('git -C /repo worktree remove --force %s' % wt); shutil.rmtree(wt, ignore_errors=True)
    print(json.dumps(matrix, indent=1, sort_keys=True))
if __name__ == '__main__':
    main()
