#!/usr/bin/env python3
"""Regenerate MANIFEST.json from the table below (checks that exist under checks/)."""
import json
import os

HERE = os.path.dirname(os.path.dirname(os.path.abspath(__file__)))

CHECKS = {
    'C01': dict(
        technique='structured stream generation (Hypothesis) incl. attack steps the documented machine rejects (violated side conditions, nearly-positive mu, laundered constraints, capture under a generalised binder) + finite-model evaluation oracle',
        text='Generated instruction streams (typed builder with REFL/WEAKEN gadgets so that Generalization, Substitution and Instantiate act on real theorems) are executed by the real checker code; every term it marks proved is evaluated in finite models (carrier 1-3, exhaustive for small interpretation spaces, sampled otherwise) on admissible concrete instances. Exploration: finds unsound rules reachable within the generated shapes, does not prove soundness.',
        note='trusted: lib/refsem.py (textbook finite-model semantics), lib/refml.py (admissibility, capture-avoiding resolution); models with carrier <= 3',
        ref='DESIGN.md 3/C01',
    ),
    'C02': dict(
        technique='generated proof modules (Hypothesis: lemma applications, further instantiation, Quantifier / functional-substitution instances, partial notation claims, theories of 40-250 axioms) serialised by the real code path, judged by the real checker binary and the reference machine',
        text='Shipped modules plus generated compositions of library lemmas over arbitrary well-formed argument patterns are serialised (both optimise settings) and must be accepted by the checker built from the working tree.',
        note='generated arguments are documented-well-formed, admissible and capture-free (preconditions of the toolkit, DESIGN 2.3)',
        ref='DESIGN.md 3/C02',
    ),
    'C03': dict(
        technique='generated modules (Hypothesis; axioms fed through constructor / add_axiom / add_axioms, twins, import graphs, id and slot boundaries) + reference machine with publish journal as oracle; expectation taken from the generated description',
        text='Random modules (axiom/claim lists, import graphs, symbol sets incl. the >256 boundary) are serialised; the reference machine decodes what was published and compares it with the declaration, for both optimise settings.',
        note='trusted: lib/refmachine.py; modules use load_axiom proofs so any claim shape is provable',
        ref='DESIGN.md 3/C03',
    ),
    'C04': dict(
        technique='Hypothesis rule-based state machine over the serialising interpreter (legal calls and forbidden ones that must be refused); reference machine as model, invariant after every call',
        text='Histories of DSL calls accepted by the stateful interpreter are replayed byte-for-byte on the documented machine; stack (modulo publish residues), memory, claims and every Load are compared after each step.',
        note='trusted: lib/refmachine.py; simulation relation erases publish residues (DESIGN 2.2)',
        ref='DESIGN.md 3/C04',
    ),
    'C05': dict(
        technique='differential testing: reference machine vs checker (harness + real binary); exhaustive short programs, exhaustive truncation of variable-length encodings, generated programs and mutations (phase leaks, bulk memory beyond 256 slots), judgement differential',
        text='Every byte string up to a length bound over the opcode alphabet (after preset prefixes), generated valid programs and their mutations are run through both implementations; verdict, stack, memory and claims must agree.',
        note='trusted: lib/refmachine.py written from docs/proof-language.md with the conventions of DESIGN 2.1',
        ref='DESIGN.md 3/C05',
    ),
    'C06': dict(
        technique='Hypothesis meta-patterns + admissible concrete instantiations; judgement => textbook property of the resolved instance',
        text='Whenever the checker (harness judge mode) or the Python toolkit judges fresh/positive/negative, the judgement is checked on many constraint-respecting concrete instances resolved capture-avoidingly; notation invariance of the Python judgement is compared on pattern vs expansion.',
        note='soundness only (the document calls the judgements best-effort); instances sampled, not enumerated',
        ref='DESIGN.md 3/C06',
    ),
    'C07': dict(
        technique='Hypothesis premises (applicable / near-miss / inapplicable / derived from one another / directed binder-notation cases / ids 0-300-70000) vs reference rule application on expansions',
        text='Python modus_ponens / exists_generalization / instantiate either raise or return exactly the reference conclusion; returning on inapplicable premises is a violation.',
        note='raising is always allowed (completeness not demanded); constraint checking at instantiation not demanded',
        ref='DESIGN.md 3/C07',
    ),
    'C08': dict(
        technique='Hypothesis proof expressions, call histories and theories of up to 200 axioms run under twelve interpreter stacks (incl. the one serialize(optimize=True) builds); all-or-none success and equal conclusions',
        text='One proof expression is evaluated under Basic, Stateful, Counting, Serializing, PrettyPrinting, Memoizing, InstantiationOptimizer and two-level stacks; success and conclusions must agree and equal the advertised conclusion.',
        note='expressions are those a caller can build through the DSL; interpreter stacks up to depth 2',
        ref='DESIGN.md 3/C08',
    ),
    'C09': dict(
        technique='bounded-exhaustive + Hypothesis propositional formulas and ordered clause sets (directed families: repeated literals, all-trivial sets, four-literal refutations); truth-table oracle',
        text='prove_tautology verdict and conclusion are compared with truth tables; each normal-form stage is checked for shape, equivalence and both implication proofs; the resolution stage is driven directly with all clause orderings.',
        note='trusted: truth tables in lib/refsem.py; formulas over <= 4 variables',
        ref='DESIGN.md 3/C09',
    ),
    'C10': dict(
        technique='catalogue of advertised schemas (transcribed from docstrings, incl. the match-based and parametric rules) applied to Hypothesis-generated arguments (aliased arguments, premises in notation form, sibling warm-up); conclusion equality + replay on reference machine',
        text='Every library entry point is called with arbitrary well-formed patterns and premise thunks; its conclusion must expand to the advertised schema and its serialisation must replay using only Prop1-3, MP, Instantiate and declared axioms.',
        note='catalogue transcribed by hand from the docstrings (lib/schemas.py)',
        ref='DESIGN.md 3/C10',
    ),
    'C11': dict(
        technique='differential testing against a textbook reference + algebraic laws + semantic substitution lemma, over Hypothesis-generated patterns with notation',
        text='apply_esubst/apply_ssubst/instantiate of the toolkit are compared with an independent implementation on full expansions; composition/identity/restriction laws are checked on the implementation; the substitution lemma is evaluated in finite models; the checker\'s Instantiate/Substitution are compared through instruction streams.',
        note='trusted: lib/refml.py, lib/refsem.py; inputs have non-redundant pending substitutions (documented well-formedness)',
        ref='DESIGN.md 3/C11',
    ),
    'C12': dict(
        technique='metamorphic: operation(p) vs operation(expansion(p)) for Hypothesis-generated nested notation; equivalence-relation laws for ==',
        text='Equality is checked to be reflexive/symmetric/transitive and to coincide with structural equality of expansions; every operation gives equal results on a pattern and its expansion.',
        note='expansion computed independently (lib/refml.from_repo); notation definitions substitution-free',
        ref='DESIGN.md 3/C12',
    ),
    'C13': dict(
        technique='Hypothesis (pattern, substitution) pairs: constructed instances for completeness, returned substitutions re-applied for soundness',
        text='match_single/match soundness and completeness, seed bindings, empty solutions; Notation.matches/assert_matches round trip for every shipped notation.',
        note='instances constructed with the reference instantiate (lib/refml.py)',
        ref='DESIGN.md 3/C13',
    ),
    'C14': dict(
        technique='round trip over Hypothesis call histories: serialise -> deserialise into fresh interpreter -> compare state and re-serialised bytes; truncation / unknown opcode injection',
        text='Each phase of generated histories is deserialised; tracker state must equal the original and the re-emitted bytes must equal the input; truncated or unknown input must raise.',
        note='histories are those the stateful interpreter accepts',
        ref='DESIGN.md 3/C14',
    ),
    'C15': dict(
        technique='exhaustive number codec round trip + Hypothesis label lists / layouts / Z placements / earlier proofs vs a reference decoder written from the Metamath book; decoded proofs executed by the translator; hash-seed sweep in child processes',
        text='All step numbers in range are encoded by a reference encoder and decoded by the repository; label tables, Z handling and mandatory-hypothesis order are compared with the reference decoder under several PYTHONHASHSEED values.',
        note='trusted: lib/refmm.py (Appendix B codec)',
        ref='DESIGN.md 3/C15',
    ),
    'C16': dict(
        technique='generated Metamath databases (all variable kinds, directed notation bodies, ground rules) + derivations in four compression layouts (verified by reference verifier) translated by the real code and judged by the checker; structural image oracle',
        text='Databases in the supported dialect with random derivations in three compression layouts are translated; translation must succeed, published claim/axioms must be the structural image of the database, and the checker must accept.',
        note='trusted: lib/refmm.py; dialect read off converter.py (DESIGN 2.3)',
        ref='DESIGN.md 3/C16',
    ),
    'C17': dict(
        technique='round trip parse/print/parse on generated databases (statements of up to 5000 symbols, another database parsed in between); slices (late declarations, spurious $d variables) re-verified by a strict reference Metamath verifier',
        text='Printing and re-parsing is the identity on generated databases; every slice re-parses, is self-contained under strict verification, and keeps floating hypotheses in order.',
        note='trusted: lib/refmm.py',
        ref='DESIGN.md 3/C17',
    ),
    'C18': dict(
        technique='metamorphic: same input under different PYTHONHASHSEED / process / in-process history (job order, doubled jobs, serialise-grow-serialise vs fresh build, complementary notation sets) must give byte-identical files',
        text='Generated modules and databases are serialised/translated in child processes under several hash seeds and after different in-process histories; all six output files must be byte-identical.',
        note='hash seeds sampled (0..7 + random quick, 0..63 thorough)',
        ref='DESIGN.md 3/C18',
    ),
    'C19': dict(
        technique='metamorphic on renderings (distinct argument tuples incl. look-alikes => distinct renderings; same application reached through instantiate => same rendering) + step-by-step comparison of pretty vs binary files',
        text='For every shipped notation, applications that expand differently must print differently; pretty files are parsed into steps and aligned with decoded binary instructions.',
        note='argument pool has pairwise distinct renderings',
        ref='DESIGN.md 3/C19',
    ),
    'C20': dict(
        technique='generated K signatures, rules (incl. sort-parametric) and traces (with non-rule events, wrong and incomplete substitutions) (Hypothesis) vs an independent substitution on Kore terms; checker acceptance',
        text='Claims of generated execution proofs must be the instantiated rewrites in order, chaining from configuration to configuration; mismatching steps must be refused; conversion commutes with substitution; the module serialises and is accepted.',
        note='runs against a stand-in for pyk.kore.syntax (lib/kore_shim.py), which is absent in this sandbox',
        ref='DESIGN.md 3/C20',
    ),
}

ENGINES = [
    dict(name='hypothesis', path='/venv (hypothesis 6.168)', serves_properties=sorted(CHECKS), kind_free_text='property-based generation, shrinking, stateful machines'),
    dict(name='rust-include-harness', path='rust/harness_tail.rs + lib/rustharness.py', serves_properties=['C01', 'C02', 'C05', 'C06', 'C11', 'C16', 'C20'], kind_free_text='executes the real checker code (lib.rs textually included) in batch mode'),
    dict(name='reference-machine', path='lib/refmachine.py, lib/refml.py, lib/refsem.py', serves_properties=['C01', 'C02', 'C03', 'C04', 'C05', 'C08', 'C09', 'C10', 'C14', 'C16', 'C20'], kind_free_text='independent oracle written from docs/proof-language.md'),
    dict(name='refmm', path='lib/refmm.py', serves_properties=['C15', 'C16', 'C17'], kind_free_text='independent Metamath verifier / compressed proof codec'),
]


def main():
    checks = []
    na = []
    for pid in sorted(CHECKS):
        meta = CHECKS[pid]
        if os.path.exists(os.path.join(HERE, 'checks', pid.lower() + '.py')):
            checks.append(
                dict(
                    property_id=pid,
                    quick_cmd='/venv/bin/python check.py %s --tier quick' % pid,
                    thorough_cmd='/venv/bin/python check.py %s --tier thorough' % pid,
                    evidence_file='evidence/%s.json' % pid,
                    replay_cmd_template='/venv/bin/python check.py %s --replay {path}' % pid,
                    engine='hypothesis',
                    level_claimed=dict(category='exploration', text=meta['text'], design_ref=meta['ref']),
                    level_note=meta['note'],
                    technique=meta['technique'],
                )
            )
        else:
            na.append(dict(property_id=pid, reason='check not built yet (work in progress; designed in DESIGN.md, technique applies)'))
    built = {c['property_id'] for c in checks}
    engines = []
    for e in ENGINES:
        e = dict(e)
        e['serves_properties'] = [p for p in e['serves_properties'] if p in built]
        engines.append(e)
    manifest = dict(
        version=1,
        setup_cmd='/venv/bin/python check.py --setup',
        hooks=dict(
            guard='PI2_VERIF',
            enable='no instrumentation is added to the repository: the Rust checker is observed by textual inclusion of rust/src/lib.rs into a harness built under /verif/.build, the Python toolkit by import (sys.path gets /repo/generation/src); the variable PI2_VERIF is unused',
            baseline_off_cmd='cd /repo && /venv/bin/python -m pytest -ra -q -p no:cacheprovider --timeout=900 --continue-on-collection-errors',
            source_commits=[],
            add_only=True,
        ),
        engines=engines,
        checks=checks,
        notes='All checks: VERIF_SEED seeds every random choice; PI2_REPO overrides the repository path (default /repo) for runs against scratch worktrees. Known findings: KNOWN_FINDINGS.txt.',
        not_applicable=na,
    )
    with open(os.path.join(HERE, 'MANIFEST.json'), 'w') as f:
        json.dump(manifest, f, indent=1)
        f.write('\n')
    print('checks:', sorted(built), 'not yet:', [x['property_id'] for x in na])


if __name__ == '__main__':
    main()
