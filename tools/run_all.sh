#!/bin/bash
# run every check (quick by default) and print one line per check
tier=${1:-quick}
cd "$(dirname "$0")/.."
for i in 01 02 03 04 05 06 07 08 09 10 11 12 13 14 15 16 17 18 19 20; do
  out=$(/venv/bin/python check.py C$i --tier $tier 2>&1); rc=$?
  echo "rc=$rc $(echo "$out" | grep -E "^C$i $tier" | tail -1)"
  echo "$out" | grep -E "^VIOLATION|^HARNESS" | head -3
done
