#!/usr/bin/env python3
"""Evaluate a seeded change produced by a sub-agent.

  seed_eval.py <ID> [--src /tmp/seed/out/<ID>] [--checks C01,C05] [--no-pytest] [--tier quick]

Steps (all in a scratch worktree of /repo HEAD under /tmp/seedrun/<ID>, removed afterwards):
  1. patch applies; 2. the agent's demonstration passes on /repo and fails on the patched tree;
  3. the pinned test suite still passes on the patched tree; 4. our checks (PI2_REPO=<worktree>) report a violation.
Writes /verif/seeded/<ID>/{patch.diff, demo.*, meta.json}.
"""
import argparse
import glob
import json
import os
import re
import shutil
import subprocess
import sys
import time

VERIF = os.path.dirname(os.path.dirname(os.path.abspath(__file__)))


def sh(cmd, **kw):
    return subprocess.run(cmd, shell=True, capture_output=True, text=True, **kw)


def main():
    ap = argparse.ArgumentParser()
    ap.add_argument('id')
    ap.add_argument('--src')
    ap.add_argument('--checks')
    ap.add_argument('--no-pytest', action='store_true')
    ap.add_argument('--tier', default='quick')
    ap.add_argument('--keep', action='store_true')
    ap.add_argument('--name')
    a = ap.parse_args()
    pid = a.id
    src = a.src or '/tmp/seed/out/%s' % pid
    name = a.name or os.path.basename(src.rstrip('/'))
    wt = '/tmp/seedrun/%s' % name
    os.makedirs('/tmp/seedrun', exist_ok=True)
    sh('git -C /repo worktree remove --force %s' % wt)
    shutil.rmtree(wt, ignore_errors=True)
    r = sh('git -C /repo worktree add -f %s HEAD' % wt)
    meta = {'property': pid, 'source': src, 'evaluated_at_repo_commit': sh('git -C /repo rev-parse --short HEAD').stdout.strip()}
    patch = os.path.join(src, 'patch.diff')
    r = sh('git -C %s apply %s' % (wt, patch))
    meta['patch_applies'] = r.returncode == 0
    if r.returncode != 0:
        # the patch was made against the agent's worktree (same HEAD); try 3-way
        r = sh('git -C %s apply --3way %s' % (wt, patch))
        meta['patch_applies'] = r.returncode == 0
        meta['patch_error'] = r.stderr[-300:]
    out = {}
    try:
        if not meta['patch_applies']:
            print(json.dumps(meta, indent=1)); return 1
        demos = sorted(glob.glob(os.path.join(src, 'demo.py')) + glob.glob(os.path.join(src, 'demo.sh')))
        meta['demo'] = os.path.basename(demos[0]) if demos else None
        if demos:
            d = demos[0]
            runner = '/venv/bin/python' if d.endswith('.py') else 'bash'
            env = dict(os.environ)
            r0 = sh('%s %s /repo' % (runner, d), env=dict(env, PI2_REPO='/repo'), timeout=900)
            r1 = sh('%s %s %s' % (runner, d, wt), env=dict(env, PI2_REPO=wt), timeout=900)
            meta['demo_on_original_rc'] = r0.returncode
            meta['demo_on_patched_rc'] = r1.returncode
            meta['demo_patched_tail'] = (r1.stdout + r1.stderr)[-400:]
        if not a.no_pytest:
            t0 = time.time()
            r = sh('cd %s && /venv/bin/python -m pytest -q -p no:cacheprovider --timeout=900 --continue-on-collection-errors 2>&1 | tail -3' % wt, timeout=3000)
            meta['pytest_tail'] = r.stdout.strip().splitlines()[-1] if r.stdout.strip() else ''
            meta['pytest_188_passed'] = '188 passed' in r.stdout
        checks = (a.checks.split(',') if a.checks else [pid])
        meta['checks'] = {}
        for c in checks:
            t0 = time.time()
            env = dict(os.environ, PI2_REPO=wt)
            r = sh('cd %s && /venv/bin/python check.py %s --tier %s' % (VERIF, c, a.tier), env=env, timeout=7200)
            viol = [l for l in r.stdout.splitlines() if l.startswith('VIOLATION')]
            first_msg = ''
            lines = r.stdout.splitlines()
            for i, l in enumerate(lines):
                if l.startswith('VIOLATION') and i + 1 < len(lines):
                    first_msg = lines[i + 1].strip()[:300]; break
            meta['checks'][c] = {'rc': r.returncode, 'violations': len(viol), 'first': first_msg, 'wall_s': round(time.time() - t0, 1),
                                 'summary': [l for l in lines if l.startswith(c + ' ')][-1:] or (r.stdout + r.stderr)[-300:]}
        dst = os.path.join(VERIF, 'seeded', name)
        os.makedirs(dst, exist_ok=True)
        shutil.copy(patch, os.path.join(dst, 'patch.diff'))
        for d in demos:
            shutil.copy(d, dst)
        for extra in glob.glob(os.path.join(src, '*.mm')) + glob.glob(os.path.join(src, 'notes.md')):
            shutil.copy(extra, dst)
        old = {}
        mp = os.path.join(dst, 'meta.json')
        if os.path.exists(mp):
            old = json.load(open(mp))
        old.update(meta)
        json.dump(old, open(mp, 'w'), indent=1)
        print(json.dumps(meta, indent=1))
    finally:
        if not a.keep:
            sh('git -C /repo worktree remove --force %s' % wt)
            shutil.rmtree(wt, ignore_errors=True)
    return 0


if __name__ == '__main__':
    sys.exit(main())
