// Appended to /repo/rust/src/lib.rs (minus its crate-level `#![..]` lines) by
// lib/rustharness.py.  Being in the same module it can call the private
// functions of the checker.  Reads length-prefixed cases from stdin:
//   mode:u8, then three (len:u32le, bytes) buffers  gamma / claim / proof.
// mode 0: verify semantics (REJECT when a claim is left); dump stack and memory
// mode 1: run the three phases, dump stack, memory and outstanding claims
// mode 2: run `gamma` as pattern construction; print e_fresh/s_fresh/positive/
//         negative of the top pattern for ids 0..3
extern crate std;
use std::io::Read;
use std::io::Write;
use std::panic::{catch_unwind, AssertUnwindSafe};
use std::string::String;
use std::format;
fn show(p: &Pattern, out: &mut String) {
    match p {
        Pattern::EVar(i) => out.push_str(&format!("(e {})", i)),
        Pattern::SVar(i) => out.push_str(&format!("(s {})", i)),
        Pattern::Symbol(i) => out.push_str(&format!("(y {})", i)),
        Pattern::Implies { left, right } => { out.push_str("(i "); show(left, out); out.push(' '); show(right, out); out.push(')'); }
        Pattern::App { left, right } => { out.push_str("(a "); show(left, out); out.push(' '); show(right, out); out.push(')'); }
        Pattern::Exists { var, subpattern } => { out.push_str(&format!("(E {} ", var)); show(subpattern, out); out.push(')'); }
        Pattern::Mu { var, subpattern } => { out.push_str(&format!("(M {} ", var)); show(subpattern, out); out.push(')'); }
        Pattern::MetaVar { id, e_fresh, s_fresh, positive, negative, app_ctx_holes } => out.push_str(&format!("(m {} {:?} {:?} {:?} {:?} {:?})", id, e_fresh, s_fresh, positive, negative, app_ctx_holes)),
        Pattern::ESubst { pattern, evar_id, plug } => { out.push_str(&format!("(es {} ", evar_id)); show(pattern, out); out.push(' '); show(plug, out); out.push(')'); }
        Pattern::SSubst { pattern, svar_id, plug } => { out.push_str(&format!("(ss {} ", svar_id)); show(pattern, out); out.push(' '); show(plug, out); out.push(')'); }
    }
}
fn dump_state(stack: &Stack, memory: &Memory, claims: Option<&Claims>) -> String {
    let mut s = String::from("ACCEPT");
    for t in stack { match t { Term::Pattern(p) => { s.push_str(" |P "); show(p, &mut s);} Term::Proved(p) => { s.push_str(" |T "); show(p, &mut s);} } }
    s.push_str(" #");
    for t in memory { match t { Entry::Pattern(p) => { s.push_str(" |P "); show(p, &mut s);} Entry::Proved(p) => { s.push_str(" |T "); show(p, &mut s);} } }
    if let Some(cl) = claims {
        s.push_str(" @");
        for p in cl { s.push_str(" |P "); show(p, &mut s); }
    }
    s
}
fn main() {
    std::panic::set_hook(std::boxed::Box::new(|_| {}));
    let mut buf = Vec::new();
    std::io::stdin().read_to_end(&mut buf).unwrap();
    let mut pos = 0usize;
    let rd = |pos: &mut usize| -> Vec<u8> { let n = u32::from_le_bytes([buf[*pos],buf[*pos+1],buf[*pos+2],buf[*pos+3]]) as usize; *pos += 4; let v = buf[*pos..*pos+n].to_vec(); *pos += n; v };
    let mut outs = String::new();
    while pos < buf.len() {
        let mode = buf[pos]; pos += 1;
        let g = rd(&mut pos); let c = rd(&mut pos); let p = rd(&mut pos);
        let r = catch_unwind(AssertUnwindSafe(|| {
            let mut claims: Claims = vec![]; let mut memory: Memory = vec![]; let mut stack: Stack = vec![];
            if mode == 2 {
                execute_instructions(&g, &mut stack, &mut memory, &mut claims, ExecutionPhase::Gamma);
                let top = match stack.last() { Some(Term::Pattern(p)) => p.clone(), _ => panic!("no pattern") };
                let mut s = String::from("J");
                for id in 0u8..4 {
                    s.push(' ');
                    s.push(if top.e_fresh(id) {'1'} else {'0'});
                    s.push(if top.s_fresh(id) {'1'} else {'0'});
                    s.push(if top.positive(id) {'1'} else {'0'});
                    s.push(if top.negative(id) {'1'} else {'0'});
                }
                s.push_str(" |P "); show(&top, &mut s);
                return s;
            }
            if mode == 0 {
                // the verdict comes from the checker's own entry point ALONE; the state dump needs a second run through the
                // phase glue below (verify returns nothing), and a failure there must not turn an acceptance into REJECT
                verify(&g, &c, &p);
                let r2 = catch_unwind(AssertUnwindSafe(|| {
                    let mut claims: Claims = vec![]; let mut memory: Memory = vec![]; let mut stack: Stack = vec![];
                    execute_instructions(&g, &mut stack, &mut memory, &mut claims, ExecutionPhase::Gamma);
                    stack.clear();
                    execute_instructions(&c, &mut stack, &mut memory, &mut claims, ExecutionPhase::Claim);
                    stack.clear();
                    execute_instructions(&p, &mut stack, &mut memory, &mut claims, ExecutionPhase::Proof);
                    dump_state(&stack, &memory, None)
                }));
                return match r2 { Ok(s) => s, Err(_) => String::from("ACCEPT !verify accepted but the three phases run one by one (stack cleared in between) fail") };
            }
            execute_instructions(&g, &mut stack, &mut memory, &mut claims, ExecutionPhase::Gamma);
            stack.clear();
            execute_instructions(&c, &mut stack, &mut memory, &mut claims, ExecutionPhase::Claim);
            stack.clear();
            execute_instructions(&p, &mut stack, &mut memory, &mut claims, ExecutionPhase::Proof);
            dump_state(&stack, &memory, Some(&claims))
        }));
        match r { Ok(s) => { outs.push_str(&s); outs.push('\n'); } Err(_) => outs.push_str("REJECT\n") }
    }
    std::io::stdout().write_all(outs.as_bytes()).unwrap();
}
