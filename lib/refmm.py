# Metamath verifier (token level) + compressed proof codec, from the Metamath book
import re
class MMError(Exception): pass
def tokenize(text):
    text=re.sub(r'\$\(.*?\$\)','',text,flags=re.S)
    return text.split()
class Frame:
    def __init__(self): self.c=set(); self.v=set(); self.d=set(); self.f=[]; self.e=[]  # f: (label,typecode,var) ; e: (label, stmt)
class DB:
    def __init__(self): self.frames=[Frame()]; self.labels={}; self.order=[]
    def consts(self): return set().union(*[f.c for f in self.frames])
    def vars(self): return set().union(*[f.v for f in self.frames])
    def floats(self): return [x for f in self.frames for x in f.f]
    def ess(self): return [x for f in self.frames for x in f.e]
    def dvs(self): return set().union(*[f.d for f in self.frames])
    def active_hyps(self):
        # in order of appearance: need global order -> store seq numbers
        hs=[(x[3],'f',x) for x in self.floats()]+[(x[2],'e',x) for x in self.ess()]
        return [h for _,k,h in sorted(hs,key=lambda t:t[0]) for h in [(k,h)]]
def parse_and_verify(text, verify_labels=None):
    toks=tokenize(text); i=0; db=DB(); seq=[0]
    def nextseq(): seq[0]+=1; return seq[0]
    results={}
    def read_until(end):
        nonlocal i
        out=[]
        while toks[i]!=end:
            out.append(toks[i]); i+=1
        i+=1; return out
    def mand(stmt, extra_e):
        vars_in=set(t for t in stmt if t in db.vars())
        for _,_,est in [(0,0,e[1]) for e in extra_e]: vars_in|=set(t for t in est if t in db.vars())
        hyps=[]
        for k,h in db.active_hyps():
            if k=='f' and h[2] in vars_in: hyps.append(('f',h))
            elif k=='e': hyps.append(('e',h))
        dv=set(p for p in db.dvs() if p[0] in vars_in and p[1] in vars_in)
        return hyps,dv
    while i<len(toks):
        t=toks[i]; i+=1
        if t=='$c': db.frames[-1].c|=set(read_until('$.'))
        elif t=='$v': db.frames[-1].v|=set(read_until('$.'))
        elif t=='$d':
            vs=read_until('$.')
            for a in vs:
                for b in vs:
                    if a!=b: db.frames[-1].d.add((a,b))
        elif t=='${': db.frames.append(Frame())
        elif t=='$}': db.frames.pop()
        else:
            label=t; kind=toks[i]; i+=1
            if label in db.labels: raise MMError('dup label '+label)
            if kind=='$f':
                st=read_until('$.')
                if len(st)!=2 or st[0] not in db.consts() or st[1] not in db.vars(): raise MMError('bad $f '+label)
                if any(f[2]==st[1] for f in db.floats()): raise MMError('var has two floats')
                ent=(label,st[0],st[1],nextseq()); db.frames[-1].f.append(ent); db.labels[label]=('f',ent)
            elif kind=='$e':
                st=read_until('$.'); check_stmt(db,st,label)
                ent=(label,st,nextseq()); db.frames[-1].e.append(ent); db.labels[label]=('e',ent)
            elif kind=='$a':
                st=read_until('$.'); check_stmt(db,st,label)
                hyps,dv=mand(st, db.ess()); db.labels[label]=('a',(label,st,hyps,dv))
            elif kind=='$p':
                st=read_until('$='); check_stmt(db,st,label); proof=read_until('$.')
                hyps,dv=mand(st, db.ess())
                if verify_labels is None or label in verify_labels:
                    verify(db,label,st,hyps,dv,proof); results[label]=st
                db.labels[label]=('a',(label,st,hyps,dv))
            else: raise MMError('bad statement kind '+kind+' after '+label)
    return results
def check_stmt(db,st,label):
    if not st or st[0] not in db.consts(): raise MMError('typecode not constant in '+label)
    floated={f[2] for f in db.floats()}
    for t in st[1:]:
        if t in db.consts(): continue
        if t in db.vars():
            if t not in floated: raise MMError('var %s without active $f in %s'%(t,label))
            continue
        raise MMError('undeclared token %s in %s'%(t,label))
def decode_num(s):
    n=0
    for ch in s[:-1]: n=n*5+(ord(ch)-ord('U')+1)
    return n*20+(ord(s[-1])-ord('A')+1)
def encode_num(n):
    n-=1; out=chr(ord('A')+n%20); n//=20
    while n>0:
        n-=1; out=chr(ord('U')+n%5)+out; n//=5
    return out
def decompress(db,hyps,proof):
    if proof[0]!='(': return [('L',l) for l in proof]
    j=proof.index(')'); labels=proof[1:j]; body=''.join(proof[j+1:])
    m=[h[1][0] for h in hyps]
    steps=[]; k=0; cur=''
    for ch in body:
        if ch=='Z': steps.append(('Z',None)); continue
        cur+=ch
        if 'A'<=ch<='T':
            n=decode_num(cur); cur=''
            if n<=len(m): steps.append(('L',m[n-1]))
            elif n<=len(m)+len(labels): steps.append(('L',labels[n-len(m)-1]))
            else: steps.append(('R',n-len(m)-len(labels)-1))
    if cur: raise MMError('dangling compressed digits')
    return steps
def verify(db,label,st,hyps,dv,proof):
    steps=decompress(db,hyps,proof); stack=[]; saved=[]
    for k,arg in steps:
        if k=='Z':
            if not stack: raise MMError('Z on empty'); 
            saved.append(stack[-1]); continue
        if k=='R':
            if arg>=len(saved): raise MMError('bad backref')
            stack.append(saved[arg]); continue
        if arg not in db.labels: raise MMError('unknown label '+arg)
        kind,ent=db.labels[arg]
        if kind=='f':
            if not any(f[0]==arg for f in db.floats()): raise MMError('inactive $f '+arg)
            stack.append((ent[1],ent[2]))
        elif kind=='e':
            if not any(e[0]==arg for e in db.ess()): raise MMError('inactive $e '+arg)
            stack.append(tuple(ent[1]))
        else:
            _,ast,ahyps,adv=ent; n=len(ahyps)
            if len(stack)<n: raise MMError('stack underflow at '+arg)
            args=stack[len(stack)-n:]; del stack[len(stack)-n:]
            sub={}
            for (hk,h),a in zip(ahyps,args):
                if hk=='f':
                    if a[0]!=h[1]: raise MMError('typecode mismatch at %s: %s vs %s'%(arg,a,h))
                    sub[h[2]]=a[1:]
                else:
                    exp=subst(h[1],sub)
                    if exp!=tuple(a): raise MMError('hyp mismatch at %s: expected %s got %s'%(arg,' '.join(exp),' '.join(a)))
            for (x,y) in adv:
                vx=[t for t in sub.get(x,()) if t in db.vars()]; vy=[t for t in sub.get(y,()) if t in db.vars()]
                for a in vx:
                    for b in vy:
                        if a==b or (a,b) not in dv and (a,b) not in db.dvs(): raise MMError('$d violation at '+arg)
            stack.append(subst(ast,sub))
    if len(stack)!=1: raise MMError('stack has %d entries at end of %s'%(len(stack),label))
    if tuple(stack[0])!=tuple(st): raise MMError('proved %s but stated %s'%(' '.join(stack[0]),' '.join(st)))
def subst(st,sub):
    out=[]
    for t in st:
        if t in sub: out.extend(sub[t])
        else: out.append(t)
    return tuple(out)
