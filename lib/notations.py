"""Registry of the notations shipped with the toolkit plus a few generated
ones, by label, and their reference-AST definitions."""
from __future__ import annotations

from functools import lru_cache

from . import refml as R


@lru_cache(None)
def registry():
    import proof_generation.pattern as P
    from proof_generation.proofs import definedness as D
    from proof_generation.proofs import kore as K
    from proof_generation.proofs.substitution import forall

    prop = [P.bot, P.neg, P.top, P._and, P._or, P.equiv]
    defn = [D.ceil, D.floor, D.subset, D.equals, D.functional]
    kore = list(K.KORE_NOTATIONS)
    gen = [
        K.sorted_exists(0), K.sorted_exists(2), K.kore_exists(1), K.kore_exists(3), forall(0), forall(2),
        K.nary_app(P.Symbol('f'), 0), K.nary_app(P.Symbol('g'), 1), K.nary_app(P.Symbol('h'), 3),
        K.nary_app(P.Symbol('c'), 2, True),
    ]
    # notations in the style of tests/unit/test_matching.py (body a bare metavariable,
    # arity larger than the metavariables used) and a body with a binder
    extra = [
        P.Notation('foo', 3, P.MetaVar(0), '{0}'),
        P.Notation('snd', 2, P.MetaVar(1), '{1}'),
        P.Notation('exq', 2, P.Exists(1, P.Implies(P.MetaVar(0), P.MetaVar(1))), '(exq {0} {1})'),
        P.Notation('muq', 1, P.Mu(2, P.App(P.MetaVar(0), P.SVar(2))), '(muq {0})'),
    ]
    # the generated families at two-digit parameters (argument positions / bound variables >= 10)
    wide = [
        K.nary_app(P.Symbol('w'), 12), K.nary_app(P.Symbol('cfg'), 11, True), K.sorted_exists(11), K.kore_exists(10), forall(12),
    ]
    groups = {'prop': prop, 'defn': defn, 'kore': kore, 'gen': gen, 'extra': extra, 'wide': wide}
    by_label = {}
    for g in groups.values():
        for n in g:
            key = n.label if n.label not in by_label else '%s#%d' % (n.label, len(by_label))
            by_label[key] = n
    defs = {id(n): R.from_repo(n.definition) for n in by_label.values()}
    return groups, by_label, defs


def all_notations():
    groups, _, _ = registry()
    return [n for g in groups.values() for n in g]


def label_of(n):
    _, by_label, _ = registry()
    for k, v in by_label.items():
        if v is n:
            return k
    raise KeyError(n.label)
