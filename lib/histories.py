"""Histories of proof-DSL calls: a Runner that applies JSON-able steps to *any* interpreter while
keeping its own mirror of the terms it got back (so operands can be chosen and replayed without
looking at the interpreter's internals).  Used by C04 (simulation), C14 (round trip), C08 (all
interpreters agree), C19 (pretty vs binary)."""
from __future__ import annotations

from hypothesis import strategies as st

from . import gens, notations, refml as R

CFG = gens.Cfg(ids=(0, 1, 2), nsyms=3, sym_names=['a', 'b', 'c'], holes=True)


def pool():
    groups, by_label, defs = notations.registry()
    return groups['prop'] + groups['defn'][:3] + groups['extra'][:2], by_label, defs


def wf_sugared(draw, depth):
    """A sugared pattern whose expansion is documented-well-formed (positive mu, non-redundant substs)."""
    p, _, defs = pool()
    for _ in range(4):
        t = gens.draw_sugared(draw, CFG, depth, p, False, defs)
        if gens.sugared_well_formed(t, defs):
            return t
    return R.MV(draw(st.sampled_from(CFG.ids)))


def is_proved(t):
    return type(t).__name__ == 'Proved'


def expand_term(t):
    if is_proved(t):
        return ('T', R.from_repo(t.conclusion))
    return ('P', R.from_repo(t))


class Skip(Exception):
    """Step not applicable in the current state (precondition of the toolkit's API)."""


class Runner:
    def __init__(self, it, axioms, claim_specs):
        """axioms: sugared trees; claim_specs: [('axiom', idx) | ('refl', sugared)]"""
        self.it = it
        self.axioms = axioms
        self.claim_specs = claim_specs
        self.stack = []       # mirror: [term, is_residue]
        self.memory = []      # mirror of saved terms (incl. published axioms as Proved)
        self.phase = 0
        self.axioms_published = 0
        self.published_claims = 0
        self.proved_claims = 0
        self.counters = dict(saves=0, loads_after_2_saves=0, inst2=0, phase_changes=0)
        self.ops = set()
        self.last_load = None
        self.results = []     # Proved conclusions returned by rule applications, in order (for C08)

    @staticmethod
    def claim_patterns(axioms, claim_specs):
        out = []
        for kind, v in claim_specs:
            t = axioms[v] if kind == 'axiom' else ('i', v, v)
            out.append(gens.build_repo(t))
        return out

    # ---- mirror helpers
    def top(self, k=1):
        if len(self.stack) < k or any(r for _, r in self.stack[-k:]):
            return None
        return [t for t, _ in self.stack[-k:]]

    def _push(self, t):
        self.stack.append([t, False])
        if is_proved(t):
            self.results.append(t.conclusion)
        return t

    def _drop(self, k):
        del self.stack[len(self.stack) - k:]

    def room(self):
        return len(self.memory) < 200

    # ---- composite gadgets
    def _pattern(self, p):
        return self._push(self.it.pattern(p))

    def _inst(self, name, pairs):
        delta = {}
        for i, p in pairs:
            delta[i] = self._pattern(p)
        pr = self._push(getattr(self.it, name)())
        res = self.it.instantiate(pr, delta)
        self._drop(len(delta) + 1)
        return self._push(res)

    def _mp(self, l, r):
        res = self.it.modus_ponens(l, r)
        self._drop(2)
        return self._push(res)

    def _refl(self, p):
        import proof_generation.pattern as P

        pp = P.Implies(p, p)
        a = self._inst('prop2', [(0, p), (1, pp), (2, p)])
        b = self._inst('prop1', [(0, p), (1, pp)])
        ab = self._mp(a, b)
        c = self._inst('prop1', [(0, p), (1, p)])
        return self._mp(ab, c)

    def _save(self, name, t):
        self.it.save(name, t)
        self.memory.append(t)
        self.names = getattr(self, 'names', {})
        self.names[len(self.memory) - 1] = name
        self.counters['saves'] += 1

    def _load(self, name, t):
        self.it.load(name, t)
        self._push(t)
        self.last_load = t
        if self.counters['saves'] >= 2:
            self.counters['loads_after_2_saves'] += 1

    def _pop(self, t):
        self.it.pop(t)
        self._drop(1)

    # ---- the steps
    def apply(self, step):
        import proof_generation.pattern as P
        from proof_generation.proved import Proved

        op = step[0]
        it = self.it
        _, by_label, defs = pool()
        if op == 'atom':
            a = gens.from_json(step[1])
            if a[0] == 'e': self._push(it.evar(a[1]))
            elif a[0] == 's': self._push(it.svar(a[1]))
            elif a[0] == 'y': self._push(it.symbol(a[1]))
            else:
                o = R.to_repo(a)
                self._push(it.metavar(o.name, o.e_fresh, o.s_fresh, o.positive, o.negative, o.app_ctx_holes))
            self.ops.add('atom-' + a[0])
        elif op == 'pattern':
            self._pattern(gens.build_repo(gens.sugared_from_json(step[1], notations.registry()[1])))
            self.ops.add('pattern()')
        elif op == 'binary':
            t = self.top(2)
            if not t or any(is_proved(x) for x in t): raise Skip
            res = getattr(it, step[1])(t[0], t[1]); self._drop(2); self._push(res)
            self.ops.add(step[1])
        elif op == 'binder':
            t = self.top(1)
            if not t or is_proved(t[0]): raise Skip
            if step[1] == 'mu' and not R.positive(R.from_repo(t[0]), step[2]): raise Skip
            res = getattr(it, step[1])(step[2], t[0]); self._drop(1); self._push(res)
            self.ops.add(step[1])
        elif op == 'subst':
            t = self.top(2)
            if not t or any(is_proved(x) for x in t): raise Skip
            plug, pat = t
            ep, eg = R.from_repo(pat), R.from_repo(plug)
            node = R.ES(ep, step[2], eg) if step[1] == 'esubst' else R.SS(ep, step[2], eg)
            if type(pat).__name__ not in ('MetaVar', 'ESubst', 'SSubst') or not R.wf_node(node): raise Skip
            res = getattr(it, step[1])(step[2], pat, plug); self._drop(2); self._push(res)
            self.ops.add(step[1])
        elif op == 'mk_subst':
            plug = gens.from_json(step[3]); mv = gens.from_json(step[4])
            node = R.ES(mv, step[2], plug) if step[1] == 'esubst' else R.SS(mv, step[2], plug)
            if not R.wf_node(node) or not R.well_formed(plug): raise Skip
            pl = self._pattern(R.to_repo(plug)); pat = self._pattern(R.to_repo(mv))
            res = getattr(it, step[1])(step[2], pat, pl); self._drop(2); self._push(res)
            self.ops.add(step[1])
        elif op == 'schema':
            self._push(getattr(it, step[1])())
            self.ops.add(step[1])
        elif op == 'refl':
            self._refl(gens.build_repo(gens.sugared_from_json(step[1], notations.registry()[1])))
            self.ops.update(['modus_ponens', 'instantiate']); self.counters['inst2'] += 1
        elif op == 'weaken':
            t = self.top(1)
            if not t or not is_proved(t[0]) or not self.room(): raise Skip
            pa = t[0]
            if not R.well_formed(R.from_repo(pa.conclusion)):
                # the conclusion would have to be rebuilt as a pattern, but the toolkit's instantiate can leave a redundant
                # stacked substitution in it (known finding, KNOWN_FINDINGS.txt key checker-rejects:redundant-subst)
                raise Skip('conclusion-not-well-formed')
            b = gens.build_repo(gens.sugared_from_json(step[1], notations.registry()[1]))
            self._save('w', pa); self._pop(pa)
            inst = self._inst('prop1', [(0, pa.conclusion), (1, b)])
            self._load('w', pa)
            self._mp(inst, pa)
            self.ops.add('modus_ponens'); self.counters['inst2'] += 1
        elif op == 'generalize':
            t = self.top(1)
            if not t or not is_proved(t[0]): raise Skip
            e = R.from_repo(t[0].conclusion)
            if e[0] != 'i' or not R.e_fresh(e[2], step[1]): raise Skip
            res = it.exists_generalization(t[0], P.EVar(step[1])); self._drop(1); self._push(res)
            self.ops.add('exists_generalization')
        elif op == 'instantiate_top':
            t = self.top(1)
            if not t or not self.room(): raise Skip
            term = t[0]
            kind, e = expand_term(term)
            keys = list(step[1]); plugs = [gens.from_json(g) for g in step[2]]
            try:
                R.instantiate(e, dict(zip(keys, plugs)), mode='check', check=True)
            except (R.Capture, R.Inadmissible):
                raise Skip('inadmissible')
            self._save('i', term); self._pop(term)
            delta = {}
            for k, g in zip(keys, plugs):
                delta[k] = self._pattern(R.to_repo(g))
            self._load('i', term)
            res = it.instantiate(term, delta) if kind == 'T' else it.instantiate_pattern(term, delta)
            self._drop(len(delta) + 1); self._push(res)
            self.ops.add('instantiate' if kind == 'T' else 'instantiate_pattern')
            if len(keys) >= 2: self.counters['inst2'] += 1
            if not keys: self.ops.add('instantiate-empty')
        elif op == 'save':
            t = self.top(1)
            if not t or not self.room(): raise Skip
            # names are free-form labels: a label may be used again for another term (step[1] set)
            self._save(('n%d' % (len(self.memory) % 2)) if len(step) > 1 and step[1] else 's%d' % len(self.memory), t[0]); self.ops.add('save')
        elif op == 'save_many':
            # scale: memory indices around the signed-byte boundary and close to the 256-slot limit
            t = self.top(1)
            if not t or len(self.memory) + step[1] > 250: raise Skip
            for _ in range(step[1]):
                self._save('s%d' % len(self.memory), t[0])
            self.ops.add('save'); self.ops.add('save_many')
        elif op == 'load':
            if not self.memory: raise Skip
            idx = step[1] % len(self.memory)
            # under the label the entry was saved with (if any and step[2] set), else under a label never used for a save
            name = getattr(self, 'names', {}).get(idx, 'l') if len(step) > 2 and step[2] else 'l'
            self._load(name, self.memory[idx]); self.ops.add('load')
        elif op == 'pop':
            t = self.top(1)
            if not t: raise Skip
            self._pop(t[0]); self.ops.add('pop')
        elif op == 'publish_axiom':
            if self.phase != 0 or self.axioms_published >= len(self.axioms): raise Skip
            a = gens.build_repo(self.axioms[self.axioms_published])
            pat = self._pattern(a)
            it.publish_axiom(pat)
            self.stack[-1][1] = True
            self.memory.append(Proved(pat))
            self.axioms_published += 1; self.ops.add('publish_axiom')
        elif op == 'to_claim':
            if self.phase != 0 or self.axioms_published < len(self.axioms): raise Skip
            it.into_claim_phase(); self.phase = 1; self.stack = []; self.counters['phase_changes'] += 1
        elif op == 'publish_claim':
            cps = self.claim_patterns(self.axioms, self.claim_specs)
            if self.phase != 1 or self.published_claims >= len(cps): raise Skip
            c = cps[len(cps) - 1 - self.published_claims]
            pat = self._pattern(c)
            it.publish_claim(pat)
            self.stack[-1][1] = True
            self.published_claims += 1; self.ops.add('publish_claim')
        elif op == 'to_proof':
            if self.phase != 1 or self.published_claims < len(self.claim_specs): raise Skip
            it.into_proof_phase(); self.phase = 2; self.stack = []; self.counters['phase_changes'] += 1
        elif op == 'misuse':
            # a call the stack discipline forbids: the tracking interpreter has to refuse it (raise); the caller treats a
            # normal return as "accepted" and lets the machine judge the bytes.  Only meaningful for tracking interpreters.
            import proof_generation.pattern as P

            odd = P.App(P.Symbol('misuse'), P.Symbol('misuse'))
            kind = step[1]
            if kind == 'prove-out-of-order':
                if self.phase != 2 or len(self.claim_specs) - self.proved_claims < 2: raise Skip
                ck, v = self.claim_specs[self.proved_claims + 1]
                if ck == 'axiom':
                    pr = Proved(gens.build_repo(self.axioms[v])); self._load('axiom', pr)
                else:
                    pr = self._refl(gens.build_repo(v))
                it.publish_proof(pr)
            elif kind == 'prove-extra':
                # one more proof published than there are claims
                if self.phase != 2 or self.proved_claims < len(self.claim_specs): raise Skip
                pr = self._refl(P.Symbol('misuse'))
                it.publish_proof(pr)
            elif kind == 'instantiate-without-plugs':
                t = self.top(1)
                if not t or not isinstance(t[0], Proved): raise Skip
                mvs = sorted(t[0].conclusion.metavars())
                if not mvs: raise Skip
                it.instantiate(t[0], {mvs[0]: odd})
            elif kind == 'pop-other':
                if not self.top(1): raise Skip
                it.pop(odd)
            elif kind == 'load-absent':
                it.load('misuse', odd)
            elif kind == 'save-other':
                if not self.top(1): raise Skip
                it.save('misuse', odd)
            else:
                raise ValueError(kind)
            self.ops.add('misuse-accepted')
        elif op == 'prove_claim':
            if self.phase != 2 or self.proved_claims >= len(self.claim_specs): raise Skip
            kind, v = self.claim_specs[self.proved_claims]
            if kind == 'axiom':
                ax = Proved(gens.build_repo(self.axioms[v]))
                self._load('axiom', ax)
                pr = ax
            else:
                pr = self._refl(gens.build_repo(v))
            it.publish_proof(pr)
            self.stack[-1][1] = True
            self.proved_claims += 1; self.ops.add('publish_proof')
        else:
            raise ValueError(op)


STEP_KINDS = ['atom', 'atom', 'pattern', 'binary', 'binder', 'subst', 'schema', 'refl', 'weaken', 'generalize',
              'instantiate_top', 'instantiate_top', 'save', 'load', 'load', 'pop', 'publish', 'publish', 'phase', 'phase', 'mk_subst', 'save_many']


MISUSES = ['prove-out-of-order', 'prove-out-of-order', 'instantiate-without-plugs', 'pop-other', 'load-absent', 'save-other']


def draw_step(draw, r: Runner, misuse=False):
    """Draw one JSON-able step that is likely applicable to runner r (Skip is still possible)."""
    _, _, defs = pool()
    if misuse:
        # the out-of-order publication whenever it is possible (it needs two open claims in the proof phase), the others rarely:
        # a refused call ends the history
        if r.phase == 2 and len(r.claim_specs) - r.proved_claims >= 2 and draw(st.integers(0, 5)) == 0:
            return ['misuse', 'prove-out-of-order']
        if r.phase == 2 and r.proved_claims >= len(r.claim_specs) and draw(st.integers(0, 7)) == 0:
            return ['misuse', 'prove-extra']
        if draw(st.integers(0, 59)) == 0:
            return ['misuse', draw(st.sampled_from(MISUSES[2:]))]
    k = draw(st.sampled_from(STEP_KINDS))
    sj = gens.sugared_to_json
    if k == 'atom': return ['atom', gens.to_json(gens._atom(draw, CFG))]
    if k == 'pattern': return ['pattern', sj(wf_sugared(draw, draw(st.integers(1, 2))))]
    if k == 'binary': return ['binary', draw(st.sampled_from(['implies', 'app']))]
    if k == 'binder': return ['binder', draw(st.sampled_from(['exists', 'mu'])), draw(st.sampled_from(CFG.ids))]
    if k == 'subst': return ['subst', draw(st.sampled_from(['esubst', 'ssubst'])), draw(st.sampled_from(CFG.ids))]
    if k == 'mk_subst':
        wcfg = gens.Cfg(ids=CFG.ids, nsyms=CFG.nsyms, sym_names=CFG.sym_names, subst=False)
        return ['mk_subst', draw(st.sampled_from(['esubst', 'ssubst'])), draw(st.sampled_from(CFG.ids)),
                gens.to_json(gens.draw_pattern(draw, wcfg, draw(st.integers(0, 1)))), gens.to_json(draw(gens.metavar(CFG)))]
    if k == 'schema': return ['schema', draw(st.sampled_from(['prop1', 'prop2', 'prop3', 'exists_quantifier']))]
    if k == 'refl': return ['refl', sj(wf_sugared(draw, draw(st.integers(0, 2))))]
    if k == 'weaken': return ['weaken', sj(wf_sugared(draw, draw(st.integers(0, 2))))]
    if k == 'generalize':
        t = r.top(1)
        ids = list(CFG.ids)
        if t and is_proved(t[0]):
            e = R.from_repo(t[0].conclusion)
            if e[0] == 'i':
                ids = [x for x in ids if R.e_fresh(e[2], x)] or ids
        return ['generalize', draw(st.sampled_from(ids))]
    if k == 'instantiate_top':
        t = r.top(1)
        if not t: return ['schema', 'prop2']
        kind, e = expand_term(t[0])
        mvs = sorted(R.metavars(e))
        pool_ids = (mvs + mvs + list(CFG.ids)) if mvs else list(CFG.ids)
        keys = []
        if draw(st.integers(0, 5)) == 0:
            # a non-empty instantiation none of whose keys occurs in the term (a no-op that still moves its plugs over the stack)
            absent = [i for i in list(CFG.ids) + [5, 6] if i not in mvs]
            keys = list(draw(st.lists(st.sampled_from(absent), min_size=1, max_size=2, unique=True)))
        else:
            for _ in range(draw(st.integers(0, 3))):
                kk = draw(st.sampled_from(pool_ids))
                if kk not in keys: keys.append(kk)
        nodes = {}
        for nd in R.metavar_nodes(e): nodes.setdefault(nd[1], []).append(nd)
        plugs = []
        for kk in keys:
            if kk in nodes:
                nds = nodes[kk]
                merged = ('m', kk, tuple(sorted({x for nd in nds for x in nd[2]})), tuple(sorted({x for nd in nds for x in nd[3]})),
                          tuple(sorted({x for nd in nds for x in nd[4]})), tuple(sorted({x for nd in nds for x in nd[5]})), ())
                if draw(st.booleans()):
                    plugs.append(gens.draw_admissible_concrete(draw, merged, CFG, 2))
                else:
                    plugs.append(R.MV(draw(st.sampled_from(CFG.ids)), merged[2], merged[3], merged[4], merged[5], ()))
            else:
                plugs.append(gens.expand_sugared(wf_sugared(draw, 1), defs))
        return ['instantiate_top', keys, [gens.to_json(g) for g in plugs]]
    if k == 'save_many':
        if draw(st.integers(0, 2)): k = 'load'
        else: return ['save_many', draw(st.sampled_from([3, 12, 60, 125, 131, 200]))]
    if k == 'save': return ['save', draw(st.booleans())]
    if k == 'load': return ['load', draw(st.integers(0, 10 ** 6)), draw(st.booleans())]
    if k == 'pop': return ['pop']
    if k == 'publish':
        return [{0: 'publish_axiom', 1: 'publish_claim', 2: 'prove_claim'}[r.phase]]
    # phase: finish the current phase's obligations first
    if r.phase == 0:
        return ['publish_axiom'] if r.axioms_published < len(r.axioms) else ['to_claim']
    if r.phase == 1:
        return ['publish_claim'] if r.published_claims < len(r.claim_specs) else ['to_proof']
    return ['prove_claim']


def draw_setup(draw):
    """-> (axioms, claim_specs) as sugared trees."""
    axioms = [wf_sugared(draw, draw(st.integers(0, 2))) for _ in range(draw(st.integers(0, 3)))]
    specs = []
    for _ in range(draw(st.integers(0, 3))):
        if axioms and draw(st.booleans()):
            specs.append(('axiom', draw(st.integers(0, len(axioms) - 1))))
        else:
            specs.append(('refl', wf_sugared(draw, draw(st.integers(0, 2)))))
    # claims must be pairwise distinct up to notation (ProofExp.add_claim asserts it; claims are matched in order)
    seen = []
    out = []
    _, _, defs = pool()
    for kind, v in specs:
        t = axioms[v] if kind == 'axiom' else ('i', v, v)
        e = gens.expand_sugared(t, defs)
        if e in seen: continue
        seen.append(e); out.append((kind, v))
    return axioms, out


def setup_to_json(axioms, specs):
    return {'axioms': [gens.sugared_to_json(a) for a in axioms],
            'claims': [[k, v if k == 'axiom' else gens.sugared_to_json(v)] for k, v in specs]}


def setup_from_json(j):
    by_label = notations.registry()[1]
    axioms = [gens.sugared_from_json(a, by_label) for a in j['axioms']]
    specs = [(k, v if k == 'axiom' else gens.sugared_from_json(v, by_label)) for k, v in j['claims']]
    return axioms, specs
