"""Finite-model semantics of concrete matching-logic patterns (textbook).

A model: carrier {0..n-1}; subsets are bitmasks; sym: key -> subset;
app: list of n*n subsets (a·b = app[a*n+b]); re: evar -> element; rs: svar -> subset.
"""
from __future__ import annotations

import itertools

from . import refml as R


def ev(p, n, sym, app, re, rs):
    full = (1 << n) - 1
    t = p[0]
    if t == 'e': return 1 << re[p[1]]
    if t == 's': return rs[p[1]]
    if t == 'y': return sym[p[1]]
    if t == 'i': return ((~ev(p[1], n, sym, app, re, rs)) & full) | ev(p[2], n, sym, app, re, rs)
    if t == 'a':
        l = ev(p[1], n, sym, app, re, rs)
        if not l: return 0
        r = ev(p[2], n, sym, app, re, rs)
        out = 0
        for a in range(n):
            if l >> a & 1:
                for b in range(n):
                    if r >> b & 1: out |= app[a * n + b]
        return out
    if t == 'E':
        out = 0
        re2 = dict(re)
        for a in range(n):
            re2[p[1]] = a
            out |= ev(p[2], n, sym, app, re2, rs)
        return out
    if t == 'M':
        cur = 0
        rs2 = dict(rs)
        for _ in range(n + 2):
            rs2[p[1]] = cur
            nxt = ev(p[2], n, sym, app, re, rs2)
            if nxt == cur: return cur
            cur = nxt
        raise ValueError('non-monotone mu body')
    raise ValueError('not concrete: %r' % (p,))


def has_app(p):
    t = p[0]
    if t == 'a': return True
    if t in ('e', 's', 'y'): return False
    if t == 'i': return has_app(p[1]) or has_app(p[2])
    return has_app(p[2])


def find_countermodel(p, draw_int, tries=24, max_n=3, exhaustive_limit=4096):
    """p: concrete pattern with positive mu's.  Looks for a model/valuation in
    which p is not the whole carrier.  `draw_int(lo, hi)` supplies the random
    choices (a Hypothesis-backed callable), so runs are replayable.
    Returns a description dict or None."""
    fe = sorted(R.free_evars(p)); fs = sorted(R.free_svars(p))
    syms = list(R.symbols(p)); ha = has_app(p)
    for n in range(1, max_n + 1):
        full = (1 << n) - 1
        n_interp_bits = n * len(syms) + (n * n * n if ha else 0)
        if (1 << n_interp_bits) <= exhaustive_limit:
            interps = itertools.product(
                itertools.product(range(full + 1), repeat=len(syms)),
                itertools.product(range(full + 1), repeat=n * n) if ha else [()],
            )
        else:
            interps = (
                (tuple(draw_int(0, full) for _ in syms), tuple(draw_int(0, full) for _ in range(n * n)) if ha else ())
                for _ in range(tries)
            )
        vals_e = list(itertools.product(range(n), repeat=len(fe)))
        vals_s = list(itertools.product(range(full + 1), repeat=len(fs)))
        for symv, appv in interps:
            sym = dict(zip(syms, symv))
            if len(vals_e) * len(vals_s) > 512:
                combos = [
                    (vals_e[draw_int(0, len(vals_e) - 1)], vals_s[draw_int(0, len(vals_s) - 1)]) for _ in range(64)
                ]
            else:
                combos = itertools.product(vals_e, vals_s)
            for ve, vs in combos:
                re = dict(zip(fe, ve)); rs = dict(zip(fs, vs))
                if ev(p, n, sym, appv, re, rs) != full:
                    return dict(n=n, sym={str(k): v for k, v in sym.items()}, app=list(appv), re=re, rs=rs)
    return None


# ---------------------------------------------------------------------------
# propositional truth tables (for C09): atoms are metavariables


def prop_eval(p, val):
    """p over ('m', i, ...), ('i', ..), BOT; val: {id: bool}."""
    if p == R.BOT: return False
    t = p[0]
    if t == 'm': return val[p[1]]
    if t == 'i': return (not prop_eval(p[1], val)) or prop_eval(p[2], val)
    raise ValueError('not propositional: %r' % (p,))


def is_propositional(p):
    if p == R.BOT: return True
    t = p[0]
    if t == 'm': return True
    if t == 'i': return is_propositional(p[1]) and is_propositional(p[2])
    return False


def truth_table(p, vars_=None):
    vs = sorted(R.metavars(p)) if vars_ is None else list(vars_)
    return vs, tuple(prop_eval(p, dict(zip(vs, bits))) for bits in itertools.product((False, True), repeat=len(vs)))


def classify(p):
    _, tt = truth_table(p)
    if all(tt): return 'taut'
    if not any(tt): return 'unsat'
    return 'contingent'
