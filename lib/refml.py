"""Reference matching-logic syntax, written from docs/proof-language.md and the
textbook definitions; independent of the code under test.

Patterns are immutable tuples:
  ('e', i) ('s', i) ('y', key)           element var, set var, symbol (key: int or str)
  ('i', l, r) ('a', l, r)                implication, application
  ('E', v, p) ('M', v, p)                exists, mu
  ('m', id, ef, sf, po, ne, ho)          metavariable with constraint tuples (ints)
  ('es', v, pat, plug) ('ss', v, pat, plug)   pending substitutions pat[plug/v]
"""
from __future__ import annotations


class Capture(Exception):
    """Resolving a substitution would capture a free variable of the plug."""


class Inadmissible(Exception):
    """An instantiation violates a declared metavariable constraint."""


def E(i): return ('e', i)
def S(i): return ('s', i)
def Y(k): return ('y', k)
def I(a, b): return ('i', a, b)
def A(a, b): return ('a', a, b)
def EX(v, p): return ('E', v, p)
def MU(v, p): return ('M', v, p)
def MV(i, ef=(), sf=(), po=(), ne=(), ho=()): return ('m', i, tuple(ef), tuple(sf), tuple(po), tuple(ne), tuple(ho))
def ES(p, v, g): return ('es', v, p, g)
def SS(p, v, g): return ('ss', v, p, g)


BOT = MU(0, S(0))
def NOT(p): return I(p, BOT)
TOP = NOT(BOT)
def AND(a, b): return NOT(I(a, NOT(b)))
def OR(a, b): return I(NOT(a), b)
def EQUIV(a, b): return AND(I(a, b), I(b, a))
PHI0, PHI1, PHI2 = MV(0), MV(1), MV(2)
PROP1 = I(PHI0, I(PHI1, PHI0))
PROP2 = I(I(PHI0, I(PHI1, PHI2)), I(I(PHI0, PHI1), I(PHI0, PHI2)))
PROP3 = I(NOT(NOT(PHI0)), PHI0)
QUANT = I(ES(PHI0, 0, E(1)), EX(0, PHI0))
EXISTENCE = EX(0, E(0))


# ---------------------------------------------------------------------------
# documented judgements (proof-language.md, "Terms")


def e_fresh(p, x):
    t = p[0]
    if t == 'e': return p[1] != x
    if t in ('s', 'y'): return True
    if t == 'm': return x in p[2]
    if t in ('i', 'a'): return e_fresh(p[1], x) and e_fresh(p[2], x)
    if t == 'E': return p[1] == x or e_fresh(p[2], x)
    if t == 'M': return e_fresh(p[2], x)
    if t == 'es':
        if x == p[1]: return e_fresh(p[3], x)
        return e_fresh(p[2], x) and e_fresh(p[3], x)
    if t == 'ss': return e_fresh(p[2], x) and e_fresh(p[3], x)
    raise ValueError(p)


def s_fresh(p, x):
    t = p[0]
    if t == 's': return p[1] != x
    if t in ('e', 'y'): return True
    if t == 'm': return x in p[3]
    if t in ('i', 'a'): return s_fresh(p[1], x) and s_fresh(p[2], x)
    if t == 'E': return s_fresh(p[2], x)
    if t == 'M': return p[1] == x or s_fresh(p[2], x)
    if t == 'es': return s_fresh(p[2], x) and s_fresh(p[3], x)
    if t == 'ss':
        if x == p[1]: return s_fresh(p[3], x)
        return s_fresh(p[2], x) and s_fresh(p[3], x)
    raise ValueError(p)


def positive(p, x):
    t = p[0]
    if t in ('e', 's', 'y'): return True
    if t == 'm': return x in p[4]
    if t == 'i': return negative(p[1], x) and positive(p[2], x)
    if t == 'a': return positive(p[1], x) and positive(p[2], x)
    if t == 'E': return positive(p[2], x)
    if t == 'M': return p[1] == x or positive(p[2], x)
    if t == 'es': return positive(p[2], x) and s_fresh(p[3], x)
    if t == 'ss':
        v, pat, plug = p[1], p[2], p[3]
        pp = s_fresh(plug, x) or (positive(pat, v) and positive(plug, x)) or (negative(pat, v) and negative(plug, x))
        if x == v: return pp
        return positive(pat, x) and pp
    raise ValueError(p)


def negative(p, x):
    t = p[0]
    if t in ('e', 'y'): return True
    if t == 's': return p[1] != x
    if t == 'm': return x in p[5]
    if t == 'i': return positive(p[1], x) and negative(p[2], x)
    if t == 'a': return negative(p[1], x) and negative(p[2], x)
    if t == 'E': return negative(p[2], x)
    if t == 'M': return p[1] == x or negative(p[2], x)
    if t == 'es': return negative(p[2], x) and s_fresh(p[3], x)
    if t == 'ss':
        v, pat, plug = p[1], p[2], p[3]
        pn = s_fresh(plug, x) or (positive(pat, v) and negative(plug, x)) or (negative(pat, v) and positive(plug, x))
        if x == v: return pn
        return negative(pat, x) and pn
    raise ValueError(p)


def wf_node(p):
    """Documented well-formedness of the top node, assuming well-formed children."""
    t = p[0]
    if t == 'm': return not any(h in p[2] for h in p[6])
    if t == 'M': return positive(p[2], p[1])
    if t == 'es':
        return p[2][0] in ('m', 'es', 'ss') and p[3] != E(p[1]) and not e_fresh(p[2], p[1])
    if t == 'ss':
        return p[2][0] in ('m', 'es', 'ss') and p[3] != S(p[1]) and not s_fresh(p[2], p[1])
    return True


def well_formed(p):
    t = p[0]
    if t in ('e', 's', 'y'): return True
    if t == 'm': return wf_node(p)
    if t in ('i', 'a'): return well_formed(p[1]) and well_formed(p[2])
    if t in ('E', 'M'): return well_formed(p[2]) and wf_node(p)
    return well_formed(p[2]) and well_formed(p[3]) and wf_node(p)


# ---------------------------------------------------------------------------
# textbook notions on concrete patterns (no metavariables / pending substitutions)


def is_concrete(p):
    t = p[0]
    if t in ('e', 's', 'y'): return True
    if t in ('i', 'a'): return is_concrete(p[1]) and is_concrete(p[2])
    if t in ('E', 'M'): return is_concrete(p[2])
    return False


def free_evars(p):
    t = p[0]
    if t == 'e': return {p[1]}
    if t in ('s', 'y'): return set()
    if t in ('i', 'a'): return free_evars(p[1]) | free_evars(p[2])
    if t == 'E': return free_evars(p[2]) - {p[1]}
    if t == 'M': return free_evars(p[2])
    raise ValueError('not concrete: %r' % (p,))


def free_svars(p):
    t = p[0]
    if t == 's': return {p[1]}
    if t in ('e', 'y'): return set()
    if t in ('i', 'a'): return free_svars(p[1]) | free_svars(p[2])
    if t == 'E': return free_svars(p[2])
    if t == 'M': return free_svars(p[2]) - {p[1]}
    raise ValueError('not concrete: %r' % (p,))


def polarities(p, x, pol=1):
    """Set of polarities (+1/-1) of the free occurrences of set variable x."""
    t = p[0]
    if t == 's': return {pol} if p[1] == x else set()
    if t in ('e', 'y'): return set()
    if t == 'i': return polarities(p[1], x, -pol) | polarities(p[2], x, pol)
    if t == 'a': return polarities(p[1], x, pol) | polarities(p[2], x, pol)
    if t == 'E': return polarities(p[2], x, pol)
    if t == 'M': return set() if p[1] == x else polarities(p[2], x, pol)
    raise ValueError('not concrete: %r' % (p,))


def concrete_wf(p):
    """Every mu binds a variable that occurs only positively."""
    t = p[0]
    if t in ('e', 's', 'y'): return True
    if t in ('i', 'a'): return concrete_wf(p[1]) and concrete_wf(p[2])
    if t == 'E': return concrete_wf(p[2])
    if t == 'M': return concrete_wf(p[2]) and -1 not in polarities(p[2], p[1])
    return False


def all_evars(p):
    """every element variable id mentioned anywhere (free, bound, binder, constraint)."""
    t = p[0]
    if t == 'e': return {p[1]}
    if t in ('s', 'y'): return set()
    if t in ('i', 'a'): return all_evars(p[1]) | all_evars(p[2])
    if t == 'E': return all_evars(p[2]) | {p[1]}
    if t == 'M': return all_evars(p[2])
    if t == 'm': return set(p[2]) | set(p[6])
    if t == 'es': return all_evars(p[2]) | all_evars(p[3]) | {p[1]}
    return all_evars(p[2]) | all_evars(p[3])


def metavars(p):
    t = p[0]
    if t in ('e', 's', 'y'): return set()
    if t == 'm': return {p[1]}
    if t in ('i', 'a'): return metavars(p[1]) | metavars(p[2])
    if t in ('E', 'M'): return metavars(p[2])
    return metavars(p[2]) | metavars(p[3])


def metavar_nodes(p, acc=None):
    acc = set() if acc is None else acc
    t = p[0]
    if t == 'm': acc.add(p)
    elif t in ('i', 'a'): metavar_nodes(p[1], acc); metavar_nodes(p[2], acc)
    elif t in ('E', 'M'): metavar_nodes(p[2], acc)
    elif t in ('es', 'ss'): metavar_nodes(p[2], acc); metavar_nodes(p[3], acc)
    return acc


def symbols(p, acc=None):
    acc = [] if acc is None else acc
    t = p[0]
    if t == 'y':
        if p[1] not in acc: acc.append(p[1])
    elif t in ('i', 'a'): symbols(p[1], acc); symbols(p[2], acc)
    elif t in ('E', 'M'): symbols(p[2], acc)
    elif t in ('es', 'ss'): symbols(p[2], acc); symbols(p[3], acc)
    return acc


def size(p):
    t = p[0]
    if t in ('e', 's', 'y', 'm'): return 1
    if t in ('i', 'a'): return 1 + size(p[1]) + size(p[2])
    if t in ('E', 'M'): return 1 + size(p[2])
    return 1 + size(p[2]) + size(p[3])


# ---------------------------------------------------------------------------
# substitution.  mode: 'naive' replaces free occurrences, never looks at the
# plug's free variables (what the Python toolkit documents); 'check' rejects
# (raises Capture) when it descends under a binder whose variable is not fresh
# in the plug (what the checker does, DESIGN 2.1 item 6).  fresh_shortcut: a
# metavariable that declares the variable fresh absorbs the substitution.


def apply_esubst(p, x, g, mode='naive', fresh_shortcut=True):
    t = p[0]
    if t == 'e': return g if p[1] == x else p
    if t in ('s', 'y'): return p
    if t in ('i', 'a'):
        return (t, apply_esubst(p[1], x, g, mode, fresh_shortcut), apply_esubst(p[2], x, g, mode, fresh_shortcut))
    if t == 'E':
        if p[1] == x: return p
        if mode == 'check' and not e_fresh(g, p[1]) and not e_fresh(p[2], x): raise Capture('esubst under exists %d' % p[1])
        return EX(p[1], apply_esubst(p[2], x, g, mode, fresh_shortcut))
    if t == 'M':
        if mode == 'check' and not s_fresh(g, p[1]) and not e_fresh(p[2], x): raise Capture('esubst under mu %d' % p[1])
        return MU(p[1], apply_esubst(p[2], x, g, mode, fresh_shortcut))
    if t == 'm' and fresh_shortcut and x in p[2]: return p
    return ES(p, x, g)


def apply_ssubst(p, x, g, mode='naive', fresh_shortcut=True):
    t = p[0]
    if t == 's': return g if p[1] == x else p
    if t in ('e', 'y'): return p
    if t in ('i', 'a'):
        return (t, apply_ssubst(p[1], x, g, mode, fresh_shortcut), apply_ssubst(p[2], x, g, mode, fresh_shortcut))
    if t == 'E':
        if mode == 'check' and not e_fresh(g, p[1]) and not s_fresh(p[2], x): raise Capture('ssubst under exists %d' % p[1])
        return EX(p[1], apply_ssubst(p[2], x, g, mode, fresh_shortcut))
    if t == 'M':
        if p[1] == x: return p
        if mode == 'check' and not s_fresh(g, p[1]) and not s_fresh(p[2], x): raise Capture('ssubst under mu %d' % p[1])
        return MU(p[1], apply_ssubst(p[2], x, g, mode, fresh_shortcut))
    if t == 'm' and fresh_shortcut and x in p[3]: return p
    return SS(p, x, g)


def would_capture(p, kind, x, g):
    """True iff substituting g for free (kind,x) in concrete p captures a free
    variable of g (textbook notion: a *replaced* occurrence lies under a binder
    of a variable free in g)."""
    fe, fs = free_evars(g), free_svars(g)

    def go(q, be, bs):
        t = q[0]
        if t == 'e': return kind == 'e' and q[1] == x and bool((fe & be) or (fs & bs))
        if t == 's': return kind == 's' and q[1] == x and bool((fe & be) or (fs & bs))
        if t == 'y': return False
        if t in ('i', 'a'): return go(q[1], be, bs) or go(q[2], be, bs)
        if t == 'E':
            if kind == 'e' and q[1] == x: return False
            return go(q[2], be | {q[1]}, bs)
        if t == 'M':
            if kind == 's' and q[1] == x: return False
            return go(q[2], be, bs | {q[1]})
        raise ValueError(q)

    return go(p, frozenset(), frozenset())


def check_constraints(mv, g):
    """Documented InstantiateSchema.well_formed for one metavariable."""
    for x in mv[2]:
        if not e_fresh(g, x): raise Inadmissible('e_fresh %d' % x)
    for x in mv[3]:
        if not s_fresh(g, x): raise Inadmissible('s_fresh %d' % x)
    for x in mv[4]:
        if not positive(g, x): raise Inadmissible('positive %d' % x)
    for x in mv[5]:
        if not negative(g, x): raise Inadmissible('negative %d' % x)


def instantiate(p, delta, mode='naive', check=False, fresh_shortcut=True):
    """Simultaneous metavariable instantiation; pending substitutions whose
    operands change are re-applied (resolved).  delta: {id: pattern}."""
    t = p[0]
    if t in ('e', 's', 'y'): return p
    if t == 'm':
        if p[1] in delta:
            g = delta[p[1]]
            if check: check_constraints(p, g)
            return g
        return p
    if t in ('i', 'a'):
        return (t, instantiate(p[1], delta, mode, check, fresh_shortcut), instantiate(p[2], delta, mode, check, fresh_shortcut))
    if t in ('E', 'M'):
        return (t, p[1], instantiate(p[2], delta, mode, check, fresh_shortcut))
    a = instantiate(p[2], delta, mode, check, fresh_shortcut)
    b = instantiate(p[3], delta, mode, check, fresh_shortcut)
    if a == p[2] and b == p[3]: return p
    if t == 'es': return apply_esubst(a, p[1], b, mode, fresh_shortcut)
    return apply_ssubst(a, p[1], b, mode, fresh_shortcut)


# ---------------------------------------------------------------------------
# conversion from / to the repository's Pattern objects (reads fields only)


def _ids(tup):
    out = []
    for v in tup:
        if hasattr(v, 'name') and type(v).__name__ in ('EVar', 'SVar'):
            out.append(v.name)
        else:
            out.append(('RAW', repr(v)))  # e.g. a bare int where an EVar/SVar object belongs
    return tuple(out)


def from_repo(p):
    """Full expansion of a repository pattern into the reference AST.  Notation
    (`Instantiate(body, inst)`) means: the body instantiated simultaneously
    with the (expanded) arguments."""
    n = type(p).__name__
    if n == 'EVar': return ('e', p.name)
    if n == 'SVar': return ('s', p.name)
    if n == 'Symbol': return ('y', p.name)
    if n == 'Implies': return ('i', from_repo(p.left), from_repo(p.right))
    if n == 'App': return ('a', from_repo(p.left), from_repo(p.right))
    if n == 'Exists': return ('E', p.var, from_repo(p.subpattern))
    if n == 'Mu': return ('M', p.var, from_repo(p.subpattern))
    if n == 'MetaVar':
        return ('m', p.name, _ids(p.e_fresh), _ids(p.s_fresh), _ids(p.positive), _ids(p.negative), _ids(p.app_ctx_holes))
    if n == 'ESubst': return ('es', p.var.name, from_repo(p.pattern), from_repo(p.plug))
    if n == 'SSubst': return ('ss', p.var.name, from_repo(p.pattern), from_repo(p.plug))
    if n == 'Instantiate':
        body = from_repo(p.pattern)
        delta = {k: from_repo(v) for k, v in p.inst.items()}
        return instantiate(body, delta)
    raise TypeError('unknown pattern class %s' % n)


def to_repo(t):
    from frozendict import frozendict  # noqa: F401
    import proof_generation.pattern as P

    k = t[0]
    if k == 'e': return P.EVar(t[1])
    if k == 's': return P.SVar(t[1])
    if k == 'y': return P.Symbol(t[1] if isinstance(t[1], str) else 's%d' % t[1])
    if k == 'i': return P.Implies(to_repo(t[1]), to_repo(t[2]))
    if k == 'a': return P.App(to_repo(t[1]), to_repo(t[2]))
    if k == 'E': return P.Exists(t[1], to_repo(t[2]))
    if k == 'M': return P.Mu(t[1], to_repo(t[2]))
    if k == 'm':
        return P.MetaVar(
            t[1],
            tuple(P.EVar(i) for i in t[2]),
            tuple(P.SVar(i) for i in t[3]),
            tuple(P.SVar(i) for i in t[4]),
            tuple(P.SVar(i) for i in t[5]),
            tuple(P.EVar(i) for i in t[6]),
        )
    if k == 'es': return P.ESubst(to_repo(t[2]), P.EVar(t[1]), to_repo(t[3]))
    if k == 'ss': return P.SSubst(to_repo(t[2]), P.SVar(t[1]), to_repo(t[3]))
    raise ValueError(t)


def rename_symbols(p, f):
    t = p[0]
    if t == 'y': return ('y', f(p[1]))
    if t in ('e', 's', 'm'): return p
    if t in ('i', 'a'): return (t, rename_symbols(p[1], f), rename_symbols(p[2], f))
    if t in ('E', 'M'): return (t, p[1], rename_symbols(p[2], f))
    return (t, p[1], rename_symbols(p[2], f), rename_symbols(p[3], f))


class SymbolBijection:
    """Incrementally built injective map between symbol names and numbers."""

    def __init__(self):
        self.fwd = {}
        self.bwd = {}

    def unify(self, a, b) -> bool:
        """a: pattern with names, b: pattern with numbers; structural equality
        modulo a consistent injective symbol renaming."""
        if a[0] != b[0]: return False
        t = a[0]
        if t == 'y':
            if a[1] in self.fwd: return self.fwd[a[1]] == b[1]
            if b[1] in self.bwd: return False
            self.fwd[a[1]] = b[1]; self.bwd[b[1]] = a[1]
            return True
        if t in ('e', 's', 'm'): return a == b
        if t in ('i', 'a'): return self.unify(a[1], b[1]) and self.unify(a[2], b[2])
        if t in ('E', 'M'): return a[1] == b[1] and self.unify(a[2], b[2])
        return a[1] == b[1] and self.unify(a[2], b[2]) and self.unify(a[3], b[3])


def show(p):
    t = p[0]
    if t == 'e': return 'x%s' % p[1]
    if t == 's': return 'X%s' % p[1]
    if t == 'y': return 'sym(%s)' % (p[1],)
    if t == 'i':
        if p == BOT: return 'bot'
        return '(%s -> %s)' % (show(p[1]), show(p[2]))
    if t == 'a': return '(%s . %s)' % (show(p[1]), show(p[2]))
    if t == 'E': return '(ex x%s. %s)' % (p[1], show(p[2]))
    if t == 'M':
        if p == BOT: return 'bot'
        return '(mu X%s. %s)' % (p[1], show(p[2]))
    if t == 'm':
        c = ''.join(' %s%s' % (n, list(l)) for n, l in zip(('ef', 'sf', 'po', 'ne', 'ho'), p[2:]) if l)
        return 'phi%s%s' % (p[1], ('{' + c.strip() + '}') if c else '')
    if t == 'es': return '%s[%s/x%s]' % (show(p[2]), show(p[3]), p[1])
    return '%s[%s/X%s]' % (show(p[2]), show(p[3]), p[1])
