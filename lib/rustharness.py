"""Build and drive the include-based Rust harness and the real `checker` binary.

Both are rebuilt from REPO's working tree whenever rust/src/{lib,main}.rs change
(cache keyed by content hash under .build/)."""
from __future__ import annotations

import contextlib
import fcntl
import hashlib
import os
import re
import struct
import subprocess

from .common import BUILD, REPO, VERIF, HarnessError

_ENV = dict(os.environ, RUSTUP_TOOLCHAIN='stable')


def _sha(*paths):
    h = hashlib.sha256()
    for p in paths:
        with open(p, 'rb') as f:
            h.update(f.read())
        h.update(b'\0')
    return h.hexdigest()[:16]


def _rustc(args, cwd):
    r = subprocess.run(['rustc', *args], cwd=cwd, env=_ENV, capture_output=True, text=True)
    if r.returncode != 0:
        raise HarnessError('rustc failed: %s\n%s' % (' '.join(args), r.stderr[-3000:]))


@contextlib.contextmanager
def _build_lock():
    os.makedirs(BUILD, exist_ok=True)
    with open(os.path.join(BUILD, '.lock'), 'w') as f:
        fcntl.flock(f, fcntl.LOCK_EX)
        try:
            yield
        finally:
            fcntl.flock(f, fcntl.LOCK_UN)


def build_harness() -> str:
    with _build_lock():
        return _build_harness()


def build_checker() -> str:
    with _build_lock():
        return _build_checker()


def _build_harness() -> str:
    lib = os.path.join(REPO, 'rust', 'src', 'lib.rs')
    tail = os.path.join(VERIF, 'rust', 'harness_tail.rs')
    key = _sha(lib, tail)
    d = os.path.join(BUILD, 'harness-' + key)
    exe = os.path.join(d, 'harness')
    if os.path.exists(exe):
        return exe
    os.makedirs(d, exist_ok=True)
    src = open(lib, encoding='utf-8').read()
    # drop crate-level inner attributes (#![deny(warnings)], #![no_std]); keep everything else
    src = re.sub(r'^#!\[[^\]]*\]\s*$', '', src, flags=re.M)
    with open(os.path.join(d, 'harness.rs'), 'w', encoding='utf-8') as f:
        f.write(src + '\n' + open(tail, encoding='utf-8').read())
    tmp = exe + '.tmp%d' % os.getpid()
    _rustc(['--edition', '2021', '-O', '-A', 'warnings', '-o', tmp, 'harness.rs'], d)
    os.replace(tmp, exe)
    return exe


def _build_checker() -> str:
    lib = os.path.join(REPO, 'rust', 'src', 'lib.rs')
    main = os.path.join(REPO, 'rust', 'src', 'main.rs')
    key = _sha(lib, main)
    d = os.path.join(BUILD, 'checker-' + key)
    exe = os.path.join(d, 'checker')
    if os.path.exists(exe):
        return exe
    os.makedirs(d, exist_ok=True)
    # compile copies so rustc never runs inside REPO (its rust-toolchain pins an absent nightly)
    for name, path in (('lib.rs', lib), ('main.rs', main)):
        with open(os.path.join(d, name), 'w', encoding='utf-8') as f:
            f.write(open(path, encoding='utf-8').read())
    _rustc(['--edition', '2021', '-O', '-A', 'warnings', '--crate-type', 'rlib', '--crate-name', 'checker', '-o', 'libchecker.rlib', 'lib.rs'], d)
    tmp = exe + '.tmp%d' % os.getpid()
    _rustc(['--edition', '2021', '-O', '-A', 'warnings', '--extern', 'checker=libchecker.rlib', '-o', tmp, 'main.rs'], d)
    os.replace(tmp, exe)
    return exe


def pack_case(mode, g, c, p) -> bytes:
    return bytes([mode]) + b''.join(struct.pack('<I', len(x)) + bytes(x) for x in (g, c, p))


def run_batch(cases, mode=0, exe=None) -> list[str]:
    """cases: iterable of (gamma, claim, proof) byte strings -> one output line per case."""
    exe = exe or build_harness()
    data = b''.join(pack_case(mode, *c) for c in cases)
    r = subprocess.run([exe], input=data, capture_output=True)
    if r.returncode != 0:
        raise HarnessError('harness crashed rc=%s stderr=%s' % (r.returncode, r.stderr[-500:]))
    return r.stdout.decode().splitlines()


def run_checker_files(gamma_path, claim_path, proof_path, exe=None) -> int:
    exe = exe or build_checker()
    r = subprocess.run([exe, gamma_path, claim_path, proof_path], capture_output=True)
    return r.returncode


def run_checker_bytes(g, c, p, workdir, exe=None) -> int:
    os.makedirs(workdir, exist_ok=True)
    paths = []
    for name, b in (('g', g), ('c', c), ('p', p)):
        path = os.path.join(workdir, name)
        with open(path, 'wb') as f:
            f.write(bytes(b))
        paths.append(path)
    return run_checker_files(*paths, exe=exe)
