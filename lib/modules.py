"""Generated proof modules: JSON-able descriptions, construction of ProofExp objects, serialisation through the
real code path (ProofExp.serialize writes files).  Used by C02, C03, C18, C19."""
from __future__ import annotations

import os

from hypothesis import strategies as st

from . import gens, histories as H, notations, refml as R, schemas as S


def sym_cfg(names):
    return gens.Cfg(ids=(0, 1, 2), nsyms=len(names), sym_names=list(names), holes=True)


def constraint_kind_template(draw, cfg):
    """A metavariable carrying exactly ONE kind of side condition, in a context where that condition is needed for the
    pattern to be well formed (or at least is stated): every list of the MetaVar encoding gets exercised on its own."""
    i = draw(st.sampled_from(cfg.ids)); k = draw(st.sampled_from(cfg.ids)); sym = R.Y(cfg.sym_names[0]) if cfg.sym_names else R.Y(0)
    t = draw(st.sampled_from([
        R.MU(k, R.NOT(R.MV(i, (), (), (), (k,)))),                      # negative only, at a negative position under mu
        R.MU(k, R.I(R.MV(i, (), (), (), (k,)), R.S(k))),
        R.MU(k, R.MV(i, (), (), (k,), ())),                             # positive only
        R.MU(k, R.A(sym, R.MV(i, (), (), (k,), ()))),
        R.MU(k, R.I(R.MV(i, (), (k,), (), ()), R.S(k))),                # s_fresh only
        R.I(R.MV(i, (k,), (), (), ()), R.EX(k, R.MV(i, (k,), (), (), ()))),   # e_fresh only
        R.MV(i, (), (), (), (), (k,)),                                  # application-context holes only
        R.I(R.MV(i, (), (), (), (), (k,)), R.E(k)),
        R.MV(i, (), (), (k,), (k,)),                                    # positive and negative
    ]))
    return t if R.well_formed(t) else R.MV(i)


def draw_axiom(draw, cfg, depth=2):
    if draw(st.integers(0, 7)) == 0:
        return constraint_kind_template(draw, cfg)
    return S.draw_arg_pattern(draw, cfg, draw(st.integers(0, depth)))


@st.composite
def module_descs(draw, with_apps=True, max_depth=3, sym_pool=('a', 'b', 'c', 'A', ' a', 'a ', 'f(x)'), rich=False, allow_taut=True):
    """A module description: own axioms, imports (tree with possible shared sub-modules = diamonds), claims."""
    names = list(draw(st.lists(st.sampled_from(sym_pool), min_size=1, max_size=len(sym_pool), unique=True)))
    cfg = sym_cfg(names)
    counter = [0]
    built = []

    def mk(depth):
        name = 'm%d' % counter[0]; counter[0] += 1
        raw = [draw_axiom(draw, cfg) for _ in range(draw(st.integers(0, 3)))]
        if raw and draw(st.integers(0, 2)) == 0:
            # a twin of one axiom: the same pattern written without notation (equal: declared once), or the same shape with a
            # side condition added to a metavariable (a different axiom that prints alike: both must be published)
            _, _, defs_ = H.pool()
            t = raw[draw(st.integers(0, len(raw) - 1))]
            if draw(st.booleans()):
                raw.insert(draw(st.integers(0, len(raw))), gens.expand_sugared(t, defs_))
            else:
                tw = _constrain_first_metavar(gens.expand_sugared(t, defs_), draw(st.sampled_from(cfg.ids)))
                if tw is not None and R.well_formed(tw):
                    raw.insert(draw(st.integers(0, len(raw))), tw)
        axioms = [gens.sugared_to_json(a) for a in raw]
        if axioms and draw(st.integers(0, 3)) == 0:
            axioms.append(axioms[draw(st.integers(0, len(axioms) - 1))])  # literal duplicate in the constructor list
        imports = []
        if depth < max_depth:
            for _ in range(draw(st.integers(0, 2))):
                if built and draw(st.integers(0, 2)) == 0:
                    imports.append({'ref': draw(st.sampled_from(built))})
                else:
                    imports.append(mk(depth + 1))
        built.append(name)
        # how the axioms reach the module: constructor list, add_axiom one by one, add_axioms in one batch, or half and half
        return {'name': name, 'axioms': axioms, 'imports': imports, 'via': draw(st.sampled_from(['ctor', 'ctor', 'add', 'batch', 'mixed']))}

    root = mk(1)
    # modules can be assembled bottom-up (a module imports its dependencies before it is itself imported, as the shipped
    # modules do) or top-down (the importer takes the module first, the module gets its own imports afterwards)
    root['import_order'] = draw(st.sampled_from(['bottom-up', 'bottom-up', 'top-down']))
    # claims: axioms of any module in the tree (proved by loading them), or library lemma applications
    all_axioms = []

    def collect(d):
        if 'ref' in d: return
        for im in d['imports']: collect(im)
        for i, _ in enumerate(d['axioms']): all_axioms.append((d['name'], i))

    collect(root)
    claims = []
    for _ in range(draw(st.integers(1 if rich else 0, 3))):
        if all_axioms and (not with_apps or draw(st.integers(0, 3 if rich else 1)) == 0):
            mname, i = draw(st.sampled_from(all_axioms))
            claims.append({'kind': 'axiom', 'module': mname, 'index': i})
        elif with_apps:
            kind = draw(st.sampled_from(['app'] * 7 + ['univgen'] * 2 + ['quant'] * 2 + ['dyninst'] * 2 + ['appinst'] * 2 + ['funcsubst'] + (['taut'] if allow_taut else []))) if rich else 'app'
            if kind in ('app', 'univgen', 'appinst'):
                app = S.draw_app(draw, cfg, depth=draw(st.integers(1, 2)), entries=S.light_catalogue(), arg_depth=1)
                c = {'kind': kind, 'app': app.to_json()}
                if kind == 'univgen': c['var'] = draw(st.sampled_from(cfg.ids))
                directed = None
                if kind == 'appinst' and draw(st.integers(0, 3)) == 0:
                    # directed: a pending substitution on X_n (x_n) over phi_k, and phi_k instantiated by a binder of the SAME number
                    # in the other namespace (exists x_n / mu X_n) with the substituted variable free below it
                    n_ = draw(st.sampled_from(cfg.ids)); k_ = draw(st.sampled_from(cfg.ids)); sk = draw(st.sampled_from(['ss', 'es']))
                    pend = (sk, n_, R.MV(k_), draw_axiom(draw, cfg, 0))
                    if R.well_formed(pend):
                        ent = next(e for e in S.catalogue() if e.name == 'prop1_inst')
                        app = S.App(ent, {100: pend, 101: draw_axiom(draw, cfg, 0)}, [])
                        c = {'kind': kind, 'app': app.to_json()}
                        directed = [k_, R.EX(n_, R.I(R.S(n_), R.E(n_))) if sk == 'ss' else R.MU(n_, R.A(R.S(n_), R.E(n_)))]
                if kind == 'appinst':
                    # a lemma application (whose arguments may carry pending substitutions with schematic plugs) instantiated
                    # further through dynamic_inst, by admissible values: a metavariable with the merged constraints or a
                    # constraint-respecting concrete pattern
                    _, _, defs = H.pool()
                    nodes = {}
                    for nd in R.metavar_nodes(gens.expand_sugared(app.conclusion(), defs)):
                        nodes.setdefault(nd[1], []).append(nd)
                    delta = []
                    for k in draw(st.lists(st.sampled_from(cfg.ids), min_size=1, max_size=2, unique=True)):
                        nds = nodes.get(k, [])
                        merged = R.MV(k, *[tuple(sorted({x for nd in nds for x in nd[i]})) for i in (2, 3, 4, 5)])
                        if draw(st.booleans()):
                            val = R.MV(draw(st.sampled_from(cfg.ids)), *merged[2:6])
                        else:
                            val = gens.draw_admissible_concrete(draw, merged, cfg, 1)
                        delta.append([k, gens.sugared_to_json(val)])
                    if directed is not None:
                        nds = nodes.get(directed[0], [])
                        merged = R.MV(directed[0], *[tuple(sorted({x for nd in nds for x in nd[i]})) for i in (2, 3, 4, 5)])
                        if gens.admissible_for(merged, directed[1]):     # the plug may itself constrain the same metavariable id
                            delta = [[directed[0], gens.sugared_to_json(directed[1])]]
                    c['delta'] = delta
                    # domain: capture-free instantiations with a documented-well-formed result (a capturing one is refused by
                    # the checker by design; the toolkit has no capture check - outside C02 as for 'quant')
                    try:
                        res = R.instantiate(gens.expand_sugared(app.conclusion(), defs), {k: gens.expand_sugared(gens.sugared_from_json(v, notations.registry()[1]), defs) for k, v in delta}, mode='check')
                        if not R.well_formed(res):
                            continue
                    except R.Capture:
                        continue
                claims.append(c)
            elif kind == 'funcsubst':
                # the Substitution library's functional_subst rule (premises: the two schematic hypotheses as axioms of the
                # theory), optionally instantiated further: phi0 by a pattern in which x0 is not free, phi1 by any pattern
                delta = []
                for k in draw(st.lists(st.sampled_from([0, 1]), max_size=2, unique=True)):
                    if k == 0:
                        val = gens.draw_admissible_concrete(draw, R.MV(0, (0,), (), (), ()), cfg, 1) if draw(st.booleans()) else R.MV(draw(st.sampled_from(cfg.ids)), (0,), (), (), ())
                    else:
                        val = draw_axiom(draw, cfg, 1)
                    delta.append([k, gens.sugared_to_json(val)])
                # domain: capture-free instantiations whose result is documented-well-formed (as for 'quant' below)
                _, _, defs = H.pool()
                by_label = notations.registry()[1]
                conc = R.ES(R.MV(1), 1, R.MV(0, (0,), (), (), ()))
                try:
                    res = R.instantiate(conc, {k: gens.expand_sugared(gens.sugared_from_json(v, by_label), defs) for k, v in delta}, mode='check')
                    if R.well_formed(res):
                        claims.append({'kind': 'funcsubst', 'delta': delta})
                except R.Capture:
                    pass
            elif kind == 'dyninst':
                # a primitive schema instantiated through dynamic_inst with the keys in an arbitrary insertion order
                schema = draw(st.sampled_from(['prop1', 'prop2', 'prop3']))
                keys = list(draw(st.permutations({'prop1': [0, 1], 'prop2': [0, 1, 2], 'prop3': [0]}[schema])))
                keys = keys[: draw(st.integers(1, len(keys)))]
                vals = [draw_axiom(draw, cfg, 1) for _ in keys]
                if draw(st.integers(0, 2)) == 0:
                    # one value is a notation-style instance whose argument map is NOT in key order (what completing a partially
                    # applied notation produces): the order of the map decides the order of the emitted plugs
                    body = draw(st.sampled_from([R.I(R.MV(0), R.I(R.MV(1), R.MV(0))), R.A(R.MV(1), R.MV(0)), R.I(R.MV(1), R.MV(0))]))
                    vals[draw(st.integers(0, len(vals) - 1))] = ('inst', body, ((1, draw_axiom(draw, cfg, 0)), (0, draw_axiom(draw, cfg, 0))))
                claims.append({'kind': 'dyninst', 'schema': schema, 'delta': [[k, gens.sugared_to_json(v)] for k, v in zip(keys, vals)]})
            elif kind == 'quant':
                _, _, defs = H.pool()
                pat = draw_axiom(draw, cfg, 2)
                if draw(st.integers(0, 3)) == 0:
                    # binders around the substituted variable x0 whose bound id coincides with the id of the plug x1 in the
                    # other namespace (mu X1), or rebinds x0 / binds x1 (capture: excluded below)
                    sym0 = R.Y(cfg.sym_names[0]) if cfg.sym_names else R.Y(0)
                    pat = draw(st.sampled_from([R.MU(1, R.A(R.S(1), R.E(0))), R.MU(0, R.A(R.S(0), R.E(0))), R.EX(2, R.A(R.E(2), R.E(0))),
                                                R.I(R.MU(1, R.A(sym0, R.E(0))), R.E(0)), R.EX(0, R.E(0)), R.MU(1, R.I(sym0, R.A(R.S(1), R.E(0))))]))
                try:
                    inst = R.apply_esubst(gens.expand_sugared(pat, defs), 0, R.E(1), 'check')   # capture-free instance only
                    # known finding (KNOWN_FINDINGS.txt, key checker-rejects:redundant-subst): substituting into a pending
                    # substitution that already removes the variable stacks a redundant (ill-formed) substitution;
                    # excluded by construction so that the search continues past it
                    if R.well_formed(inst):
                        claims.append({'kind': 'quant', 'pattern': gens.sugared_to_json(pat)})
                except R.Capture:
                    pass
            else:
                from checks.c09 import formulas, tolist
                f = draw(formulas(1))   # tautology proofs are large (seconds to serialise with optimisation): keep these tiny
                if 'equiv' not in repr(f):
                    claims.append({'kind': 'taut', 'f': tolist(f)})
    if rich and draw(st.integers(0, 4)) == 0:
        # claims stated as *partial* applications of a schema (Instantiate objects whose keys are not 0..n-1): the same
        # argument bound to different metavariables gives different patterns; one of them is reused so that it gets memoised
        val = gens.sugared_to_json(draw_axiom(draw, cfg, 1))
        k1, k2 = draw(st.lists(st.sampled_from([0, 1]), min_size=2, max_size=2, unique=True))
        extra = [{'kind': 'pnc', 'k': k2, 'v': val, 'nested': False}, {'kind': 'pnc', 'k': k1, 'v': val, 'nested': False}, {'kind': 'pnc', 'k': k1, 'v': val, 'nested': True}]
        claims = extra + claims if draw(st.booleans()) else claims + extra
    root['claims'] = claims
    root['use_prop'] = any(c['kind'] != 'axiom' for c in claims)
    return root


def _constrain_first_metavar(t, x):
    """t with e_fresh x added to its first unconstrained metavariable node (all nodes of that id), or None"""
    nodes = [nd for nd in R.metavar_nodes(t) if not any(nd[2:7])]
    if not nodes: return None
    target = sorted(nodes)[0]
    def go(q):
        if q[0] == 'm': return R.MV(q[1], (x,), (), (), ()) if q[1] == target[1] and not any(q[2:7]) else q
        if q[0] in ('e', 's', 'y'): return q
        if q[0] in ('i', 'a'): return (q[0], go(q[1]), go(q[2]))
        if q[0] in ('E', 'M'): return (q[0], q[1], go(q[2]))
        return (q[0], q[1], go(q[2]), go(q[3]))
    return go(t)


class Built:
    def __init__(self):
        self.by_name = {}
        self.gamma_order = []   # expected publication order of axioms (expansions), documented: imports first, depth-first
        self.claims = []        # expected claims (expansions) in declaration order


def apply_late(root, desc):
    """The description's late changes (used by C18): a module imported after everything else was set up, notations registered
    on the root.  Kept separate so that a caller can serialise in between (history) or not (fresh build)."""
    from proof_generation.proof import ProofExp

    by_label = notations.registry()[1]
    for l in desc.get('extra_notations', []):
        root.add_notation(by_label[l])
    li = desc.get('late_import')
    if li:
        sub = ProofExp(axioms=[gens.build_repo(gens.sugared_from_json(a, by_label)) for a in li['axioms']])
        root.import_module(sub)


def build_module(desc, late=True):
    """-> (ProofExp, Built)"""
    from proof_generation.proof import ProofExp
    from proof_generation.proofs.propositional import Propositional
    from proof_generation.tautology import Tautology

    by_label = notations.registry()[1]
    _, _, defs = H.pool()
    built = Built()

    topdown = desc.get('import_order') == 'top-down'

    def create(d):
        if 'ref' in d:
            return
        axioms = [gens.sugared_from_json(a, by_label) for a in d['axioms']]
        rp = [gens.build_repo(a) for a in axioms]
        via = d.get('via', 'ctor')
        if via == 'ctor':
            m = ProofExp(axioms=rp)
        elif via == 'add':
            m = ProofExp()
            for a in rp: m.add_axiom(a)
        elif via == 'batch':
            m = ProofExp()
            m.add_axioms(list(rp))
        else:
            m = ProofExp(axioms=rp[: len(rp) // 2])
            m.add_axioms(rp[len(rp) // 2:])
        m._verif_axioms = axioms
        m._verif_extra = []
        m._verif_subs = []
        built.by_name[d['name']] = m
        for im in d['imports']:
            create(im)

    def link(d):
        if 'ref' in d:
            return
        m = built.by_name[d['name']]
        for im in d['imports']:
            sub = built.by_name[im['ref'] if 'ref' in im else im['name']]
            if not topdown:
                link(im)              # bottom-up: the dependency is complete before it is imported
            m.import_module(sub)
            m._verif_subs.append(sub)
            if topdown:
                link(im)              # top-down: the dependency gets its own imports after it was imported

    create(desc)
    link(desc)
    root = built.by_name[desc['name']]
    apps = [S.App.from_json(c['app']) for c in desc.get('claims', []) if c['kind'] in ('app', 'univgen', 'appinst')]
    prop = taut = None
    if apps or any(c['kind'] in ('taut', 'quant', 'dyninst', 'pnc', 'funcsubst') for c in desc.get('claims', [])):
        need_taut = any(c['kind'] == 'taut' for c in desc.get('claims', [])) or any(n in {e.name for e in S.catalogue() if e.module == 'taut'} for a in apps for n in a.entries())
        if need_taut:
            taut = root.import_module(Tautology()); prop = taut
        else:
            prop = root.import_module(Propositional())
        root._verif_subs.append(prop)
        prop._verif_axioms = None
    n_own = len(root._axioms)     # axioms added from here on (premises of lemma applications, funcsubst hypotheses) are extras
    claims, thunks = [], []
    subst_lib = None
    it = iter(apps)
    for c in desc.get('claims', []):
        explicit = None
        if c['kind'] == 'pnc':
            import proof_generation.pattern as P
            from frozendict import frozendict

            body = P.Implies(P.MetaVar(0), P.Implies(P.MetaVar(1), P.MetaVar(0)))
            v = gens.build_repo(gens.sugared_from_json(c['v'], by_label))
            part = P.Instantiate(body, frozendict({c['k']: v}))
            if c['nested']:
                explicit = P.Implies(part, P.Implies(P.MetaVar(1), part))
                th = prop.prop1_inst(part, P.MetaVar(1))
            else:
                explicit = part
                th = prop.prop1_inst(v, P.MetaVar(1)) if c['k'] == 0 else prop.prop1_inst(P.MetaVar(0), v)
        elif c['kind'] == 'axiom':
            m = built.by_name[c['module']]
            pat = gens.build_repo(m._verif_axioms[c['index']])   # the declared axiom (the module may hold an equal object)
            th = m.load_axiom(pat)
        elif c['kind'] == 'app':
            th = next(it).build(root, prop, taut)
        elif c['kind'] == 'univgen':
            import proof_generation.pattern as P
            from proof_generation.proofs.substitution import Substitution

            sub = Substitution.__new__(Substitution)
            sub.prop = prop
            th = Substitution.universal_gen(sub, next(it).build(root, prop, taut), P.EVar(c['var']))
            th = _rebind(root, th)
        elif c['kind'] == 'funcsubst':
            import proof_generation.pattern as P
            from proof_generation.proofs.definedness import equals
            from proof_generation.proofs.substitution import Substitution, forall

            if subst_lib is None:
                subst_lib = root.import_module(Substitution())
                root._verif_subs.append(subst_lib)
                subst_lib._verif_subs = [subst_lib.prop]
                subst_lib.prop._verif_subs = []
            f0 = P.MetaVar(0, e_fresh=(P.EVar(0),))
            a1 = P.Exists(0, equals(f0, P.EVar(0))); a2 = forall(1)(P.MetaVar(1))
            root.add_axiom(a1); root.add_axiom(a2)
            th = subst_lib.functional_subst(root.load_axiom(a1), root.load_axiom(a2))
            if c['delta']:
                th = root.dynamic_inst(th, {k: gens.build_repo(gens.sugared_from_json(v, by_label)) for k, v in c['delta']})
        elif c['kind'] == 'appinst':
            th = root.dynamic_inst(next(it).build(root, prop, taut), {k: gens.build_repo(gens.sugared_from_json(v, by_label)) for k, v in c['delta']})
        elif c['kind'] == 'dyninst':
            th = root.dynamic_inst(getattr(root, c['schema'])(), {k: gens.build_repo(gens.sugared_from_json(v, by_label)) for k, v in c['delta']})
        elif c['kind'] == 'quant':
            th = root.dynamic_inst(root.exists_quantifier(), {0: gens.build_repo(gens.sugared_from_json(c['pattern'], by_label))})
        else:
            from checks.c09 import fromlist, to_repo
            res = taut.prove_tautology(to_repo(fromlist(c['f'])))
            if res is None or not res[0]:
                continue
            th = res[1]
        stated = explicit if explicit is not None else th.conc
        if any(stated == x for x in claims):
            continue   # add_claim asserts distinctness
        claims.append(stated); thunks.append(th)
    root._claims = claims
    root._proof_expressions = thunks
    root._verif_extra = list(root._axioms[n_own:])

    # expected gamma order, as documented: submodules first (depth first, in import order), then own axioms
    def order(m, acc):
        for sub in getattr(m, '_verif_subs', []):
            order(sub, acc)
        decl = getattr(m, '_verif_axioms', None)
        if decl is not None:
            # what the description declares (not what the module reports about itself); compared up to duplicates
            for a in decl: acc.append(gens.expand_sugared(a, defs))
            for a in getattr(m, '_verif_extra', []): acc.append(R.from_repo(a))
        else:
            for a in m._axioms:
                acc.append(R.from_repo(a))
        return acc

    built.gamma_order = order(root, [])
    built.claims = [R.from_repo(c) for c in claims]
    if late:
        apply_late(root, desc)
    return root, built


def _rebind(root, th):
    return th


def dedup(seq):
    out = []
    for x in seq:
        if x not in out: out.append(x)
    return out


def serialize(module, directory, name, fmt='binary', optimize=False):
    """Real code path: ProofExp.serialize writes <name>.ml-gamma/.ml-claim/.ml-proof (or .pretty-*)."""
    from pathlib import Path
    from proof_generation.proof import OutputFormat

    os.makedirs(directory, exist_ok=True)
    module.serialize(Path(directory) / name, OutputFormat.Binary if fmt == 'binary' else OutputFormat.Pretty, optimize)
    exts = ('ml-gamma', 'ml-claim', 'ml-proof') if fmt == 'binary' else ('pretty-gamma', 'pretty-claim', 'pretty-proof')
    out = []
    for e in exts:
        with open(os.path.join(directory, '%s.%s' % (name, e)), 'rb') as f:
            out.append(f.read())
    return out
