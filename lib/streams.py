"""Typed builder of instruction streams (gamma / claim / proof) driven by Hypothesis.

The builder runs every emitted fragment on the *reference* machine so that it
knows what is on the stack; this only steers generation (most streams end up
accepted, every operand is arbitrary) — the oracle of a check never is the
builder's own view.
"""
from __future__ import annotations

from hypothesis import strategies as st

from . import gens
from . import refmachine as M
from . import refml as R


class FreeMachine(M.Machine):
    """Reference machine whose proof-phase Publish records instead of checking claims."""

    def run(self, buf, phase):
        # the builder emits a proof-phase Publish as a lone fragment
        if phase == M.PROOF and bytes(buf) == b'\x1e':
            t = self._popT()
            self.proved.append(t)
            self.rules['Publish'] += 1
            return None
        return super().run(buf, phase)


def _svars(p, acc=None):
    """set variable ids occurring (anywhere) in p"""
    acc = set() if acc is None else acc
    t = p[0]
    if t == 's': acc.add(p[1])
    elif t in ('i', 'a'): _svars(p[1], acc); _svars(p[2], acc)
    elif t in ('E', 'M'): _svars(p[2], acc)
    elif t in ('es', 'ss'): _svars(p[2], acc); _svars(p[3], acc)
    return acc


def _binders(p, eb=None, sb=None):
    eb = set() if eb is None else eb; sb = set() if sb is None else sb
    t = p[0]
    if t == 'E': eb.add(p[1]); _binders(p[2], eb, sb)
    elif t == 'M': sb.add(p[1]); _binders(p[2], eb, sb)
    elif t in ('i', 'a'): _binders(p[1], eb, sb); _binders(p[2], eb, sb)
    elif t in ('es', 'ss'): _binders(p[2], eb, sb); _binders(p[3], eb, sb)
    return eb, sb


def inst_stream(proof_bytes, pairs):
    """Instantiate `proof_bytes` (pushes one meta-term) with [(id, pattern)...]: first id <-> topmost plug."""
    out = b''.join(M.emit(p) for _, p in reversed(pairs))
    return out + bytes(proof_bytes) + bytes([26, len(pairs), *[i for i, _ in pairs]])


def refl_stream(p):
    """|- p -> p from Prop1/Prop2/MP (the toolkit's imp_refl)."""
    pp = R.I(p, p)
    a = inst_stream([13], [(0, p), (1, pp), (2, p)])
    b = inst_stream([12], [(0, p), (1, pp)])
    c = inst_stream([12], [(0, p), (1, p)])
    return a + b + bytes([21]) + c + bytes([21])


class Builder:
    def __init__(self, draw, cfg: gens.Cfg, reject_rate=10):
        self.draw = draw
        self.cfg = cfg
        self.m = FreeMachine()
        self.bufs = {M.GAMMA: bytearray(), M.CLAIM: bytearray(), M.PROOF: bytearray()}
        self.phase = M.GAMMA
        self.dead = None           # reason when a fragment was rejected (program ends there)
        self.reject_rate = reject_rate  # percent of gadgets allowed to end the program with a rejection
        self.tags = set()

    # -- plumbing
    def _snapshot(self):
        m = self.m
        return (list(m.stack), list(m.memory), list(m.claims), list(m.axioms), list(m.claimed), list(m.proved), len(m.loads))

    def _restore(self, s):
        m = self.m
        m.stack, m.memory, m.claims, m.axioms, m.claimed, m.proved = s[0], s[1], s[2], s[3], s[4], s[5]
        del m.loads[s[6]:]

    def emit(self, bs, tag=None, allow_reject=None):
        """Run fragment on the tracking machine; on rejection either roll back (returns False) or
        keep it as the program's (expected-reject) end."""
        if self.dead:
            return False
        if allow_reject is None:
            allow_reject = self.draw(st.integers(0, 99)) < self.reject_rate
        snap = self._snapshot()
        try:
            self.m.run(bytes(bs), self.phase)
        except M.Reject as e:
            if allow_reject:
                self.bufs[self.phase] += bytes(bs)
                self.dead = str(e)
                self.tags.add('ends-rejected:' + str(e).split(':')[0])
                return False
            self._restore(snap)
            return False
        except RecursionError:
            self._restore(snap)
            return False
        self.bufs[self.phase] += bytes(bs)
        if tag:
            self.tags.add(tag)
        return True

    def next_phase(self):
        self.m.next_phase()
        self.phase += 1

    # -- operand helpers
    def pattern(self, depth=2):
        return gens.draw_pattern(self.draw, self.cfg, self.draw(st.integers(0, depth)))

    def top(self):
        return self.m.stack[-1] if self.m.stack else None

    def save_pop(self):
        """Save the top term and pop it; returns its memory index (for gadgets that need operands below it)."""
        if not self.emit(bytes([28, 27]), allow_reject=False):
            return None
        return len(self.m.memory) - 1

    # -- gadgets (proof phase)
    def g_push_pattern(self):
        self.emit(M.emit(self.pattern(3)), 'push-pattern')

    def g_axiom(self):
        op = self.draw(st.sampled_from([12, 13, 14, 15, 19]))
        self.emit(bytes([op]), 'schema')

    def collision_pattern(self):
        """Patterns in which one numeric id is used for an element variable, a set variable, a binder and/or a substituted
        variable at once, or whose pending substitution re-introduces the substituted variable: the shapes where a slip in a
        freshness / capture / shadowing rule shows."""
        d = self.draw
        k = d(st.sampled_from(self.cfg.ids)); j = d(st.sampled_from(self.cfg.ids))
        f = R.Y(0)
        templates = [
            lambda: R.MU(k, R.E(k)),
            lambda: R.MU(k, R.A(R.E(k), R.S(k))),
            lambda: R.EX(k, R.S(k)),
            lambda: R.EX(k, R.MU(k, R.A(R.S(k), R.E(k)))),
            lambda: R.I(R.MU(k, R.E(k)), R.E(j)),
            lambda: R.A(f, R.MU(j, R.EX(k, R.A(R.E(j), R.S(k))))),
            lambda: R.ES(R.MV(d(st.sampled_from(self.cfg.ids))), k, R.A(f, R.E(k))),
            lambda: R.SS(R.MV(d(st.sampled_from(self.cfg.ids))), k, R.A(f, R.S(k))),
            lambda: R.ES(R.SS(R.MV(0), j, R.E(k)), k, R.A(f, R.E(k))),
            lambda: R.EX(k, R.ES(R.MV(1), j, R.E(k))),
            lambda: R.MU(k, R.SS(R.MV(1, (), (), (k,), ()), j, R.S(k))),
            lambda: R.MV(d(st.sampled_from(self.cfg.ids)), (k,), (), (), ()),
            lambda: R.MV(d(st.sampled_from(self.cfg.ids)), (), (k,), (j,), ()),
            lambda: R.EX(k, R.MV(0, (j,), (), (), ())),
            # a binder that rebinds the id and uses it in its body (substitution on that id must leave it alone)
            lambda: R.EX(k, R.E(k)),
            lambda: R.I(R.EX(k, R.A(f, R.E(k))), f),
            lambda: R.MU(k, R.S(k)),
            lambda: R.I(R.EX(k, R.E(k)), R.E(k)),
            lambda: R.NOT(R.EX(k, R.E(k))),
            lambda: R.NOT(R.EX(k, R.A(f, R.E(k)))),
            lambda: R.I(R.EX(k, R.E(k)), f),
        ]
        p = d(st.sampled_from(templates))()
        return p if R.well_formed(p) else self.pattern(2)

    def g_refl(self):
        p = self.collision_pattern() if self.draw(st.integers(0, 3)) == 0 else self.pattern(2)
        self.emit(refl_stream(p), 'REFL')

    # -- attack steps: deliberately violate a side condition *according to the documented judgements*; the documented
    # machine rejects them (the program ends there), a checker that accepts them leaves a theorem behind to be judged
    def g_attack_generalize(self):
        t = self.top()
        if not t or t[0] != 'T' or t[1][0] != 'i': return
        bad = [x for x in self.cfg.ids if not R.e_fresh(t[1][2], x)]
        if not bad: return
        self.emit(bytes([22, self.draw(st.sampled_from(bad))]), 'attack-Generalization', allow_reject=True)

    def g_attack_instantiate(self):
        t = self.top()
        if not t or len(self.m.memory) >= 250: return
        nodes = [nd for nd in R.metavar_nodes(t[1]) if any(nd[2:6])]
        if not nodes: return
        nd = self.draw(st.sampled_from(sorted(nodes)))
        cands = []
        for x in nd[2]: cands += [R.E(x), R.MU(x, R.E(x)), R.A(R.Y(0), R.E(x)), R.ES(R.MV(2), x, R.A(R.Y(0), R.E(x)))]
        for x in nd[3]: cands += [R.S(x), R.EX(x, R.S(x)), R.SS(R.MV(2), x, R.A(R.Y(0), R.S(x)))]
        for x in nd[4]: cands += [R.NOT(R.S(x)), R.I(R.S(x), R.S(x))]
        for x in nd[5]: cands += [R.S(x), R.NOT(R.NOT(R.S(x)))]
        cands = [c for c in cands if R.well_formed(c)]
        if not cands: return
        plug = self.draw(st.sampled_from(cands))
        two_step = self.draw(st.integers(0, 2)) == 0
        if two_step:
            # launder the constraint first: instantiate the constrained metavariable by a metavariable that carries fewer
            # constraints (the same id unconstrained, the same id with part of the lists, another id unconstrained) - the
            # documented machine rejects that - and then, blind, by the concrete violating plug
            weaker = [R.MV(nd[1]), R.MV(self.draw(st.sampled_from(self.cfg.ids))), R.MV(nd[1], nd[2][:1], nd[3][:1], (), ())]
            covers = lambda w: set(nd[2]) <= set(w[2]) and set(nd[3]) <= set(w[3]) and set(nd[4]) <= set(w[4]) | set(w[3]) and set(nd[5]) <= set(w[5]) | set(w[3])
            weaker = [w for w in weaker if not covers(w)]
            if not weaker: return
            first = self.draw(st.sampled_from(weaker))
        idx = self.save_pop()
        if idx is None: return
        if two_step:
            frag = M.emit(first) + bytes([29, idx, 26, 1, nd[1]]) + bytes([28, 27]) + M.emit(plug) + bytes([29, idx + 1, 26, 1, first[1]])
            ok = self.emit(frag, 'attack-Instantiate-2step', allow_reject=True)
            if not ok and not self.dead:
                self.emit(bytes([29, idx]), allow_reject=False)
            return
        ok = self.emit(M.emit(plug) + bytes([29, idx, 26, 1, nd[1]]), 'attack-Instantiate', allow_reject=True)
        if not ok and not self.dead:
            self.emit(bytes([29, idx]), allow_reject=False)

    def g_attack_mu(self):
        """mu X . body where, by the documented positivity judgement, X is not known to be positive in the schematic body (a
        near miss: the body is positive in X up to a metavariable / pending substitution), followed - blind, the documented
        machine has rejected at the Mu - by an admissible instantiation of the body's metavariables and the theorem
        N -> (N -> N) about the result.  A checker whose positivity judgement is too generous certifies a statement with an
        ill-formed mu."""
        if len(self.m.memory) >= 250: return
        d = self.draw
        ids = self.cfg.ids
        k = d(st.sampled_from(ids)); j = d(st.sampled_from(ids)); i = d(st.sampled_from(ids)); f = R.Y(0)
        pos = R.MV(i, (), (), (k,), ()); neg = R.MV(i, (), (), (), (k,)); fre = R.MV(i, (), (k,), (), ())
        templates = [
            lambda: R.ES(pos, j, R.S(k)),
            lambda: R.ES(pos, j, R.A(f, R.S(k))),
            lambda: R.ES(fre, j, R.S(k)),
            lambda: R.ES(R.I(neg, f), j, R.NOT(R.S(k))),
            lambda: R.SS(pos, j, R.NOT(R.S(k))),
            lambda: R.SS(R.MV(i), j, R.S(k)),
            lambda: R.I(pos, f),
            lambda: R.I(R.I(neg, f), f) if d(st.booleans()) else neg,
            lambda: R.A(pos, neg),
            lambda: R.EX(j, R.ES(pos, j, R.S(k))),
            lambda: gens.draw_subst(d, self.cfg, 2),
            lambda: self.collision_pattern(),
        ]
        body = d(st.sampled_from(templates))()
        if not R.well_formed(body) or R.positive(body, k) or not R.metavars(body): return
        nodes = {}
        for nd in R.metavar_nodes(body): nodes.setdefault(nd[1], []).append(nd)
        pairs = []
        for mid, nds in sorted(nodes.items()):
            merged = ('m', mid, tuple(sorted({x for n in nds for x in n[2]})), tuple(sorted({x for n in nds for x in n[3]})),
                      tuple(sorted({x for n in nds for x in n[4]})), tuple(sorted({x for n in nds for x in n[5]})), ())
            cands = [R.I(R.E(j), f), R.I(R.S(k), f), R.S(k), R.E(j), R.I(R.I(R.E(j), f), f), R.A(R.E(j), R.S(k)), R.I(R.S(j), f)]
            cands = [c for c in cands if gens.admissible_for(merged, c)]
            pairs.append((mid, d(st.sampled_from(cands)) if cands and d(st.integers(0, 5)) else gens.draw_admissible_concrete(d, merged, self.cfg, 1)))
        idx = len(self.m.memory)
        frag = inst_stream(M.emit(body) + bytes([7, k]), pairs) + bytes([28, 29, idx, 12, 26, 2, 0, 1])
        self.emit(frag, 'attack-Mu', allow_reject=True)

    def g_attack_launder(self):
        """A side condition discharged through a declared constraint, the constraint then laundered away: |- M -> M with
        M = phi_i{e_fresh x}, Generalization on x (legal: x is declared fresh in M), then - the documented machine rejects
        here - Instantiate phi_i by a metavariable without that constraint, then by a pattern in which x is free."""
        if len(self.m.memory) >= 248: return
        d = self.draw
        x = d(st.sampled_from(self.cfg.ids)); i = d(st.sampled_from(self.cfg.ids))
        Mv = R.MV(i, (x,), (), (), ())
        if d(st.booleans()):
            # variant: the same metavariable id occurs twice with different constraint lists in ONE theorem,
            # (phi_i -> phi_i) -> ((exists x. phi_i{e_fresh x}) -> phi_i{e_fresh x}), the unconstrained occurrence first; a plug that
            # only violates the later occurrence's constraint must still be refused
            B = R.I(R.MV(i), R.MV(i)); T1 = R.I(R.EX(x, Mv), Mv)
            setup = inst_stream([12], [(0, T1), (1, B)]) + refl_stream(Mv) + bytes([22, x, 21])
            if not self.emit(setup, 'launder-setup', allow_reject=False): return
            plug = d(st.sampled_from([R.E(x), R.A(R.Y(0), R.E(x))]))
            idx = len(self.m.memory)
            self.emit(bytes([28, 27]) + M.emit(plug) + bytes([29, idx, 26, 1, i]), 'attack-mixed-constraints', allow_reject=True)
            return
        if not self.emit(refl_stream(Mv) + bytes([22, x]), 'launder-setup', allow_reject=False): return
        first = d(st.sampled_from([R.MV(i), R.MV(d(st.sampled_from(self.cfg.ids))), R.MV(i, (), (x,), (), ())]))
        plug = d(st.sampled_from([R.E(x), R.A(R.Y(0), R.E(x)), R.I(R.E(x), R.Y(0))]))
        idx = len(self.m.memory)
        frag = bytes([28, 27]) + M.emit(first) + bytes([29, idx, 26, 1, i]) + bytes([28, 27]) + M.emit(plug) + bytes([29, idx + 1, 26, 1, first[1]])
        self.emit(frag, 'attack-launder', allow_reject=True)

    def g_attack_capture(self):
        """Substitution under a binder introduced by Generalization: |- M -> M with M = phi_i{e_fresh x, s_fresh X}[X/y]
        (X occurs in the plug of the pending substitution), Generalization on x (legal), then Substitution X := x-pattern, which
        the documented machine refuses (x would be captured), then - blind - the metavariable is instantiated so that the
        pending substitution resolves."""
        if len(self.m.memory) >= 248: return
        d = self.draw
        ids = self.cfg.ids
        x = d(st.sampled_from(ids)); X = d(st.sampled_from(ids)); i = d(st.sampled_from(ids))
        y = d(st.sampled_from([v for v in ids if v != x] or list(ids)))
        Mv = R.ES(R.MV(i, (x,), (X,), (), ()), y, d(st.sampled_from([R.S(X), R.A(R.Y(0), R.S(X))])))
        if not R.well_formed(Mv): return
        if not self.emit(refl_stream(Mv) + bytes([22, x]), 'capture-setup', allow_reject=False): return
        plug = d(st.sampled_from([R.E(x), R.A(R.Y(0), R.E(x))]))
        val = d(st.sampled_from([R.E(y), R.A(R.Y(1), R.E(y)), R.I(R.E(y), R.Y(0))]))
        idx = len(self.m.memory)
        # Substitution: plug below the theorem; then Instantiate phi_i := val
        frag = bytes([28, 27]) + M.emit(plug) + bytes([29, idx, 24, X]) + bytes([28, 27]) + M.emit(val) + bytes([29, idx + 1, 26, 1, i])
        self.emit(frag, 'attack-capture', allow_reject=True)

    def g_weaken(self):
        t = self.top()
        if not t or t[0] != 'T' or len(self.m.memory) >= 250: return
        a = t[1]; b = self.pattern(2)
        idx = self.save_pop()
        if idx is None: return
        self.emit(inst_stream([12], [(0, a), (1, b)]) + bytes([29, idx, 21]), 'WEAKEN', allow_reject=False) or self.emit(bytes([29, idx]), allow_reject=False)

    def g_generalize(self):
        t = self.top()
        if not t or t[0] != 'T': return
        ids = list(self.cfg.ids)
        if t[1][0] == 'i' and self.draw(st.integers(0, 9)) < 5:
            ok = [x for x in ids if R.e_fresh(t[1][2], x)]
            ids = ok or ids
        self.emit(bytes([22, self.draw(st.sampled_from(ids))]), 'Generalization')

    def g_substitution(self):
        t = self.top()
        if not t or t[0] != 'T' or len(self.m.memory) >= 250: return
        plug = self.pattern(2)
        x = self.draw(st.sampled_from(self.cfg.ids))
        # bias towards the interesting region: substitute a set variable that occurs, by a plug mentioning a variable
        # that some binder of the theorem binds (capture is only possible there)
        occ = sorted(_svars(t[1]))
        if occ and self.draw(st.integers(0, 9)) < 7:
            x = self.draw(st.sampled_from(occ))
        eb, sb = _binders(t[1])
        if (eb or sb) and self.draw(st.booleans()):
            cands = [R.E(v) for v in sorted(eb)] + [R.S(v) for v in sorted(sb)]
            v = self.draw(st.sampled_from(cands))
            plug = v if self.draw(st.booleans()) else R.I(v, self.pattern(1))
        idx = self.save_pop()
        if idx is None: return
        ok = self.emit(M.emit(plug) + bytes([29, idx, 24, x]), 'Substitution')
        if not ok and not self.dead:
            self.emit(bytes([29, idx]), allow_reject=False)

    def g_instantiate(self):
        t = self.top()
        if not t or len(self.m.memory) >= 250: return
        mvs = sorted(R.metavars(t[1]))
        n = self.draw(st.integers(0, 3))
        ids = []
        for _ in range(n):
            if mvs and self.draw(st.integers(0, 9)) < 8: ids.append(self.draw(st.sampled_from(mvs)))
            else: ids.append(self.draw(st.sampled_from(self.cfg.ids)))
        nodes = {nd[1]: nd for nd in R.metavar_nodes(t[1])}
        plugs = []
        for i in ids:
            if i in nodes and any(nodes[i][2:6]) and self.draw(st.integers(0, 9)) < 3:
                # admissible plug from the *other* namespace: an element variable whose id is declared fresh/polar as a set
                # variable (and vice versa) satisfies the constraint but must not be confused with it
                nd = nodes[i]
                cands = [R.E(x) for x in nd[3] + nd[4] + nd[5]] + [R.S(x) for x in nd[2]] + [R.A(R.Y(0), R.E(x)) for x in nd[3]]
                cands = [c for c in cands if gens.admissible_for(nd, c)]
                plugs.append(self.draw(st.sampled_from(cands)) if cands else self.pattern(1))
            elif i in nodes and self.draw(st.integers(0, 9)) < 7:
                # an admissible plug (constraint-respecting) most of the time
                if self.draw(st.booleans()):
                    plugs.append(gens.draw_admissible_concrete(self.draw, nodes[i], self.cfg, 2))
                else:
                    nd = nodes[i]
                    plugs.append(R.MV(self.draw(st.sampled_from(self.cfg.ids)), nd[2], nd[3], nd[4], nd[5], ()))
            else:
                plugs.append(self.pattern(2))
        idx = self.save_pop()
        if idx is None: return
        frag = b''.join(M.emit(p) for p in reversed(plugs)) + bytes([29, idx, 26, len(ids), *ids])
        ok = self.emit(frag, 'Instantiate-proof' if t[0] == 'T' else 'Instantiate-pattern')
        if not ok and not self.dead:
            self.emit(bytes([29, idx]), allow_reject=False)

    def g_mp(self):
        self.emit(bytes([21]), 'ModusPonens-raw')

    def g_mp_ready(self):
        """With |- A -> B on top: try to obtain |- A by REFL when A is itself P -> P, else skip."""
        t = self.top()
        if not t or t[0] != 'T' or t[1][0] != 'i': return
        a = t[1][1]
        if a[0] == 'i' and a[1] == a[2]:
            self.emit(refl_stream(a[1]) + bytes([21]), 'MP-ready')

    def g_mem(self):
        k = self.draw(st.integers(0, 3))
        if k == 0 and len(self.m.memory) < 250: self.emit(bytes([28]), 'Save')
        elif k == 1 and self.m.memory: self.emit(bytes([29, self.draw(st.integers(0, len(self.m.memory) - 1))]), 'Load')
        elif k == 2: self.emit(bytes([27]), 'Pop')
        else: self.emit(bytes([29, self.draw(st.integers(0, 5))]), 'Load')

    def g_quantifier_inst(self):
        p = self.pattern(2)
        if self.draw(st.integers(0, 3)) == 0:
            # phi0 := ... constrained metavariable ... so that the pushed [x1/x0] meets declared-fresh shortcuts
            k = self.draw(st.sampled_from(self.cfg.ids))
            mv = self.draw(st.sampled_from([R.MV(1, (), (0,), (), ()), R.MV(1, (0,), (), (), ()), R.MV(2, (), (k,), (k,), ()), R.MV(1, (k,), (0,), (), ())]))
            p = self.draw(st.sampled_from([mv, R.NOT(R.I(mv, R.E(0))), R.A(mv, R.E(0)), R.EX(1, R.I(mv, R.E(0)))]))
        elif self.draw(st.integers(0, 3)) == 0:
            p = self.collision_pattern()      # id collisions: binders that rebind x0 / x1, mu over the same numbers, ...
        self.emit(inst_stream([15], [(0, p)]), 'Quantifier-inst')

    GADGETS = ['g_push_pattern', 'g_axiom', 'g_refl', 'g_refl', 'g_weaken', 'g_generalize', 'g_generalize',
               'g_substitution', 'g_substitution', 'g_instantiate', 'g_instantiate', 'g_mp', 'g_mp_ready', 'g_mem', 'g_quantifier_inst',
               'g_attack_generalize', 'g_attack_generalize', 'g_attack_instantiate', 'g_attack_mu', 'g_attack_launder', 'g_attack_capture']

    def step(self):
        getattr(self, self.draw(st.sampled_from(self.GADGETS)))()

    # -- whole programs
    def gamma_phase(self, axioms):
        for a in axioms:
            self.emit(M.emit(a) + bytes([30]), 'axiom', allow_reject=False)
        self.next_phase()

    def finish(self, max_claims=2):
        """Publish up to max_claims proved terms from the top of the stack, then derive the claim file."""
        n = 0
        while not self.dead and n < max_claims and self.m.stack and self.m.stack[-1][0] == 'T':
            if n and not self.draw(st.booleans()):
                break
            if not self.emit(bytes([30]), 'Publish', allow_reject=False):
                break
            n += 1
        claim = bytearray()
        for t in reversed(self.m.proved):
            claim += M.emit(t) + bytes([30])
        self.bufs[M.CLAIM] = claim
        return bytes(self.bufs[M.GAMMA]), bytes(claim), bytes(self.bufs[M.PROOF])


def draw_program(draw, cfg: gens.Cfg, axioms=(), max_steps=10, reject_rate=10, extra_steps=None):
    """-> (gamma, claim, proof, tags)."""
    b = Builder(draw, cfg, reject_rate)
    b.gamma_phase(list(axioms))
    b.next_phase()  # claim phase is derived afterwards
    for _ in range(draw(st.integers(1, max_steps))):
        if b.dead:
            break
        if axioms and draw(st.integers(0, 5)) == 0:
            b.emit(bytes([29, draw(st.integers(0, len(axioms) - 1))]), 'Load-axiom')
            continue
        b.step()
    g, c, p = b.finish()
    return g, c, p, sorted(b.tags)
