"""The documented three-phase stack machine (docs/proof-language.md), with the
conventions of DESIGN.md §2.1, plus journals.  Independent of the checker's code.
"""
from __future__ import annotations

from collections import Counter

from . import refml as R
from .refml import Capture, Inadmissible

GAMMA, CLAIM, PROOF = 0, 1, 2

OPNAMES = {
    2: 'EVar', 3: 'SVar', 4: 'Symbol', 5: 'Implies', 6: 'App', 7: 'Mu', 8: 'Exists', 9: 'MetaVar',
    10: 'ESubst', 11: 'SSubst', 12: 'Prop1', 13: 'Prop2', 14: 'Prop3', 15: 'Quantifier',
    16: 'PropagationOr', 17: 'PropagationExists', 18: 'PreFixpoint', 19: 'Existence', 20: 'Singleton',
    21: 'ModusPonens', 22: 'Generalization', 23: 'Frame', 24: 'Substitution', 25: 'KnasterTarski',
    26: 'Instantiate', 27: 'Pop', 28: 'Save', 29: 'Load', 30: 'Publish', 137: 'CleanMetaVar',
}
# number of fixed operand bytes (variable-length ones handled in decode)
FIXED_OPERANDS = {2: 1, 3: 1, 4: 1, 7: 1, 8: 1, 10: 1, 11: 1, 22: 1, 24: 1, 29: 1, 137: 1}


class Reject(Exception):
    pass


def decode(buf):
    """Split a byte string into (opcode, operands tuple); raises Reject on
    unknown opcodes / truncation.  Purely syntactic."""
    out = []
    i = 0
    n = len(buf)

    def need(k):
        if i + k > n:
            raise Reject('truncated')

    while i < n:
        op = buf[i]; i += 1
        if op not in OPNAMES:
            raise Reject('opcode %d' % op)
        if op == 9:
            need(1); ident = buf[i]; i += 1
            lists = []
            for _ in range(5):
                need(1); ln = buf[i]; i += 1
                need(ln); lists.append(tuple(buf[i:i + ln])); i += ln
            out.append((op, (ident, *lists)))
        elif op == 26:
            need(1); k = buf[i]; i += 1
            need(k); out.append((op, (k, tuple(buf[i:i + k])))); i += k
        else:
            k = FIXED_OPERANDS.get(op, 0)
            need(k); out.append((op, tuple(buf[i:i + k]))); i += k
    return out


class Machine:
    def __init__(self):
        self.stack = []      # ('P'|'T', pattern)
        self.memory = []     # ('P'|'T', pattern)
        self.claims = []     # patterns (a stack)
        self.axioms = []     # publish journal, gamma phase
        self.claimed = []    # publish journal, claim phase (publication order)
        self.proved = []     # publish journal, proof phase (discharge order)
        self.rules = Counter()
        self.loads = []      # (index, term) per Load executed
        self.executed = 0    # instructions executed beyond atom pushes

    # -- helpers
    def _pop(self):
        if not self.stack: raise Reject('underflow')
        return self.stack.pop()

    def _popP(self):
        k, p = self._pop()
        if k != 'P': raise Reject('kind: expected pattern')
        return p

    def _popT(self):
        k, p = self._pop()
        if k != 'T': raise Reject('kind: expected proof')
        return p

    def next_phase(self):
        self.stack = []

    def run(self, buf, phase):
        it = iter(buf)

        def nxt():
            try: return next(it)
            except StopIteration: raise Reject('truncated')

        st = self.stack
        for op in it:
            self.rules[OPNAMES.get(op, op)] += 1
            if op not in (2, 3, 4, 137): self.executed += 1
            if op == 2: st.append(('P', R.E(nxt())))
            elif op == 3: st.append(('P', R.S(nxt())))
            elif op == 4: st.append(('P', R.Y(nxt())))
            elif op == 5: r = self._popP(); l = self._popP(); st.append(('P', R.I(l, r)))
            elif op == 6: r = self._popP(); l = self._popP(); st.append(('P', R.A(l, r)))
            elif op == 7:
                v = nxt(); p = self._popP(); m = R.MU(v, p)
                if not R.wf_node(m): raise Reject('ill-formed mu')
                st.append(('P', m))
            elif op == 8: v = nxt(); p = self._popP(); st.append(('P', R.EX(v, p)))
            elif op == 9:
                i = nxt(); ls = []
                for _ in range(5):
                    n = nxt(); ls.append(tuple(nxt() for _ in range(n)))
                m = R.MV(i, *ls)
                if not R.wf_node(m): raise Reject('ill-formed metavar')
                st.append(('P', m))
            elif op == 137: st.append(('P', R.MV(nxt())))
            elif op in (10, 11):
                v = nxt(); pat = self._popP(); plug = self._popP()
                node = R.ES(pat, v, plug) if op == 10 else R.SS(pat, v, plug)
                if not R.wf_node(node):
                    raise Reject('ill-formed subst (%s)' % ('target is not a metavariable chain' if pat[0] not in ('m', 'es', 'ss') else 'redundant'))
                st.append(('P', node))
            elif op == 12: st.append(('T', R.PROP1))
            elif op == 13: st.append(('T', R.PROP2))
            elif op == 14: st.append(('T', R.PROP3))
            elif op == 15: st.append(('T', R.QUANT))
            elif op == 19: st.append(('T', R.EXISTENCE))
            elif op == 21:
                p2 = self._popT(); p1 = self._popT()
                if p1[0] != 'i' or p1[1] != p2: raise Reject('modus ponens mismatch')
                st.append(('T', p1[2]))
            elif op == 22:
                p = self._popT()
                if p[0] != 'i': raise Reject('generalization: not an implication')
                v = nxt()
                if not R.e_fresh(p[2], v): raise Reject('generalization: variable not fresh')
                st.append(('T', R.I(R.EX(v, p[1]), p[2])))
            elif op == 24:
                v = nxt(); p = self._popT(); g = self._popP()
                try: st.append(('T', R.apply_ssubst(p, v, g, 'check')))
                except Capture as e: raise Reject('capture: %s' % e)
            elif op == 26:
                n = nxt(); k, mt = self._pop(); ids = []; plugs = []
                for _ in range(n):
                    ids.append(nxt()); plugs.append(self._popP())
                delta = {}
                for i, g in zip(ids, plugs):
                    delta.setdefault(i, g)   # first occurrence wins
                try: st.append((k, R.instantiate(mt, delta, 'check', check=True)))
                except Capture as e: raise Reject('capture: %s' % e)
                except Inadmissible as e: raise Reject('constraint: %s' % e)
            elif op == 27: self._pop()
            elif op == 28:
                if not st: raise Reject('save on empty stack')
                self.memory.append(st[-1])
            elif op == 29:
                i = nxt()
                if i >= len(self.memory): raise Reject('load index')
                st.append(self.memory[i]); self.loads.append((i, self.memory[i]))
            elif op == 30:
                if phase == GAMMA:
                    p = self._popP(); self.memory.append(('T', p)); self.axioms.append(p)
                elif phase == CLAIM:
                    p = self._popP(); self.claims.append(p); self.claimed.append(p)
                else:
                    if not self.claims: raise Reject('no claim left')
                    c = self.claims.pop(); t = self._popT()
                    if c != t: raise Reject('claim mismatch')
                    self.proved.append(t)
            elif op in OPNAMES: raise Reject('unspecified instruction %s' % OPNAMES[op])
            else: raise Reject('opcode %d' % op)


def emit(p):
    """Postfix instruction bytes constructing reference pattern p (symbol keys must be ints)."""
    t = p[0]
    if t == 'e': return bytes([2, p[1]])
    if t == 's': return bytes([3, p[1]])
    if t == 'y': return bytes([4, p[1]])
    if t == 'i': return emit(p[1]) + emit(p[2]) + bytes([5])
    if t == 'a': return emit(p[1]) + emit(p[2]) + bytes([6])
    if t == 'E': return emit(p[2]) + bytes([8, p[1]])
    if t == 'M': return emit(p[2]) + bytes([7, p[1]])
    if t == 'm':
        if not any(p[2:]): return bytes([137, p[1]])
        out = [9, p[1]]
        for l in p[2:]: out += [len(l), *l]
        return bytes(out)
    if t == 'es': return emit(p[3]) + emit(p[2]) + bytes([10, p[1]])
    if t == 'ss': return emit(p[3]) + emit(p[2]) + bytes([11, p[1]])
    raise ValueError(p)


def verify(g, c, p):
    """('ACCEPT', machine) or ('REJECT', reason, machine)."""
    m = Machine()
    try:
        m.run(g, GAMMA); m.next_phase()
        m.run(c, CLAIM); m.next_phase()
        m.run(p, PROOF)
    except Reject as e:
        return ('REJECT', str(e), m)
    except RecursionError:
        return ('REJECT', 'recursion', m)
    if m.claims:
        return ('REJECT', 'claims left', m)
    return ('ACCEPT', m)


def run_prefix(g, c, p):
    """Run all three phases without the final claims check (state comparison)."""
    m = Machine()
    try:
        m.run(g, GAMMA); m.next_phase()
        m.run(c, CLAIM); m.next_phase()
        m.run(p, PROOF)
    except Reject as e:
        return ('REJECT', str(e), m)
    except RecursionError:
        return ('REJECT', 'recursion', m)
    return ('ACCEPT', m)


def sexp(p):
    """Same textual form as the Rust harness prints."""
    t = p[0]
    if t in ('e', 's', 'y'): return '(%s %d)' % (t, p[1])
    if t in ('i', 'a'): return '(%s %s %s)' % (t, sexp(p[1]), sexp(p[2]))
    if t in ('E', 'M'): return '(%s %d %s)' % (t, p[1], sexp(p[2]))
    if t == 'm': return '(m %d %s %s %s %s %s)' % (p[1], *[str(list(x)) for x in p[2:]])
    return '(%s %d %s %s)' % (t, p[1], sexp(p[2]), sexp(p[3]))


def dump(res, with_claims=False):
    if res[0] == 'REJECT':
        return 'REJECT'
    m = res[1]
    s = 'ACCEPT' + ''.join(' |%s %s' % (k, sexp(p)) for k, p in m.stack) + ' #' + ''.join(' |%s %s' % (k, sexp(p)) for k, p in m.memory)
    if with_claims:
        s += ' @' + ''.join(' |P %s' % sexp(p) for p in m.claims)
    return s


def parse_sexp(s):
    """Inverse of sexp (for reading harness dumps)."""
    pos = 0

    def ws():
        nonlocal pos
        while pos < len(s) and s[pos] == ' ': pos += 1

    def num():
        nonlocal pos
        ws(); j = pos
        while pos < len(s) and s[pos].isdigit(): pos += 1
        return int(s[j:pos])

    def lst():
        nonlocal pos
        ws(); assert s[pos] == '['; j = s.index(']', pos); body = s[pos + 1:j]; pos = j + 1
        return tuple(int(x) for x in body.split(',') if x.strip())

    def term():
        nonlocal pos
        ws(); assert s[pos] == '(', (s, pos); pos += 1
        j = pos
        while s[pos] not in ' )': pos += 1
        tag = s[j:pos]
        if tag in ('e', 's', 'y'): r = (tag, num())
        elif tag in ('i', 'a'): a = term(); b = term(); r = (tag, a, b)
        elif tag in ('E', 'M'): v = num(); b = term(); r = (tag, v, b)
        elif tag == 'm': i = num(); r = ('m', i, lst(), lst(), lst(), lst(), lst())
        else: v = num(); a = term(); b = term(); r = (tag, v, a, b)
        ws(); assert s[pos] == ')'; pos += 1
        return r

    return term()


def parse_dump(line):
    """'ACCEPT |P .. #  |T .. @ |P ..' -> (stack, memory, claims) lists of (kind, pattern)."""
    assert line.startswith('ACCEPT')
    rest = line[len('ACCEPT'):]
    if rest.startswith(' !'):   # verify accepted but the harness could not re-run the phases to dump the state
        return [], [], []
    claims_part = ''
    if ' @' in rest:
        rest, claims_part = rest.split(' @', 1)
    stack_part, mem_part = rest.split(' #', 1)

    def items(part):
        out = []
        for chunk in part.split(' |')[1:]:
            out.append((chunk[0], parse_sexp(chunk[2:])))
        return out

    return items(stack_part), items(mem_part), items(claims_part)
