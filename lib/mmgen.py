# pilot generator of Metamath databases (translator's dialect) with random derivations
from . import refmm
VARS=['ph0','ph1','ph2','ph3']
def term_tokens(t):
    if isinstance(t,str): return [t]
    if len(t)==1: return [t[0]]
    out=['(',t[0]]
    for a in t[1:]: out+=term_tokens(a)
    return out+[')']
def tstr(t): return ' '.join(term_tokens(t))
def tvars(t,acc=None):
    acc=[] if acc is None else acc
    if isinstance(t,str):
        if t not in acc: acc.append(t)
    else:
        for a in t[1:]: tvars(a,acc)
    return acc
def tsub(t,s):
    if isinstance(t,str): return s.get(t,t)
    return (t[0],)+tuple(tsub(a,s) for a in t[1:])
class Gen:
    def __init__(self,rnd):
        self.rnd=rnd; r=rnd
        self.nvars=r.randint(3,4); self.vars=VARS[:self.nvars]
        # float declaration order may differ from name order
        self.float_order=self.vars[:]
        if r.random()<0.5: r.shuffle(self.float_order)
        # but proof rules use ph0 ph1 ph2 hard-coded in translator => keep ph0<ph1<ph2 relative order
        self.float_order=sorted(self.float_order,key=lambda v:(0,VARS.index(v)) if v in VARS[:3] else (1,r.random()))
        if r.random()<0.5 and self.nvars==4:  # ph3 anywhere
            self.float_order.remove('ph3'); self.float_order.insert(r.randint(0,3),'ph3')
        self.ctors={}  # name -> tuple of vars (args)
        for i in range(r.randint(2,4)):
            k=r.choice([0,0,1,2,2,3]); self.ctors['\\c%d'%i]=tuple(r.sample(self.vars,min(k,self.nvars)))
        self.ctors['\\k']=()
        self.use_app=r.random()<0.4
        self.notations={}  # name -> (args, body)
        for i in range(r.randint(0,2)):
            k=r.choice([1,2]); args=tuple(r.sample(self.vars,k))
            body=self.rterm(2,list(args),allow_not=list(self.notations))
            if r.random()<0.5:
                # directed bodies: a bare built-in connective over the parameters in swapped / repeated / projected order
                x=args[0]; y=args[-1]
                cands=[('\\imp',y,x),('\\imp',x,x),('\\imp',x,y),('\\imp',y,y)]+([('\\app',y,x),('\\app',x,x),('\\app',x,y)] if self.use_app else [])
                body=r.choice(cands)
            self.notations['\\n%d'%i]=(args,body)
        self.axioms={}; self.rules={}
        for i in range(r.randint(1,3)):
            self.axioms['ax-%d'%i]=self.rterm(2,self.vars if r.random()<0.6 else [])
        for i in range(r.randint(1,3)):
            nh=r.randint(1,3); hv=r.sample(self.vars,min(nh,self.nvars))
            hyps=[]
            for v in hv:
                hyps.append(v if r.random()<0.6 else ('\\imp',v,r.choice(self.vars)))
            allv=[]
            for h in hyps: tvars(h,allv)
            self.rules['rule-%d'%i]=(hyps,self.rterm(2,allv))
        # ground rules: hypotheses and conclusion without any variable; the hypotheses are closed axioms of the database
        self.grules={}
        closed=[l for l,t in self.axioms.items() if not tvars(t)]
        if closed and r.random()<0.5:
            hs=[self.axioms[l] for l in r.sample(closed,min(len(closed),r.randint(1,2)))]
            self.grules['grule-0']=(hs,self.rterm(2,[]))
            self.rules['grule-0']=self.grules['grule-0']
    def make_extras(self):
        """Declarations of the other variable kinds of the translator's dialect (#Variable - element-or-set, split by the
        converter -, #ElementVariable, #SetVariable, #Symbol) and |- axioms over them.  The goal's proof does not use them;
        they exercise the converter's scope handling and are exported with the theory."""
        r=self.rnd; self.extra_axioms=[]; self.kinds={}
        amb=r.sample(['xX','yY','zZ'],r.randint(1,3)); ev=['x','y'][:r.randint(0,2)]; sv=['X'][:r.randint(0,1)]
        sym=r.random()<0.5
        consts=['#Variable','#ElementVariable','#SetVariable','#Symbol']
        L=['$v '+' '.join(amb+ev+sv+(['sg0'] if sym else []))+' $.']
        for v in amb: L.append('%s-is-var $f #Variable %s $.'%(v,v))
        for v in ev: L.append('%s-is-element-var $f #ElementVariable %s $.'%(v,v))
        for v in sv: L.append('%s-is-set-var $f #SetVariable %s $.'%(v,v))
        if sym: L.append('sg0-is-symbol $f #Symbol sg0 $.')
        if ev: L.append('element-var-is-var $a #Variable x $.')
        if sv: L.append('set-var-is-var $a #Variable X $.')
        L.append('var-is-pattern $a #Pattern %s $.'%amb[0])
        if sym: L.append('symbol-is-pattern $a #Pattern sg0 $.')
        others=ev+sv+(['sg0'] if sym else [])+['ph0','ph1']
        ax=[]
        for i in range(r.randint(1,3)):
            k=r.randint(0,3)
            if k==0 and len(amb)>=2:
                a,b=r.sample(amb,2); t=('\\imp',a,('\\imp',b,a))
            elif k==1:
                t=('\\imp',self.rterm(1,amb),self.rterm(1,amb+r.sample(others,1)))
            else:
                t=self.rterm(2,amb+r.sample(others,r.randint(0,2)))
            ax.append('xax-%d $a |- %s $.'%(i,tstr(t))); self.extra_axioms.append(('xax-%d'%i,t))
        for v in amb: self.kinds[v]='amb'
        for v in ev: self.kinds[v]='e'
        for v in sv: self.kinds[v]='s'
        if sym: self.kinds['sg0']='sym'
        return consts,L,ax
    def rterm(self,d,leaves,allow_not=None):
        r=self.rnd
        heads=[c for c in self.ctors if True]
        nots=list(self.notations) if allow_not is None else allow_not
        if d==0 or r.random()<0.3:
            nullary=[(c,) for c,a in self.ctors.items() if len(a)==0]
            pool=list(leaves)+nullary
            return r.choice(pool)
        k=r.random()
        if k<0.35: return ('\\imp',self.rterm(d-1,leaves,allow_not),self.rterm(d-1,leaves,allow_not))
        if k<0.5 and self.use_app: return ('\\app',self.rterm(d-1,leaves,allow_not),self.rterm(d-1,leaves,allow_not))
        if k<0.7 and nots:
            n=r.choice(nots); return (n,)+tuple(self.rterm(d-1,leaves,allow_not) for _ in self.notations[n][0])
        c=r.choice(heads); return self.mkctor(c,d-1,leaves,allow_not)
    def mkctor(self,c,d,leaves,allow_not=None):
        return (c,)+tuple(self.rterm(d,leaves,allow_not) for _ in self.ctors[c])
    # ---- database text
    def header(self):
        L=[]
        consts=['#Pattern','#Notation','|-','\\imp','(',')']+list(self.ctors)+list(self.notations)+(['\\app'] if self.use_app else [])
        ex=getattr(self,'extras',None)
        if ex: consts+=ex[0]
        L.append('$c '+' '.join(consts)+' $.')
        L.append('$v '+' '.join(self.vars)+' $.')
        for v in self.float_order: L.append('%s-is-pattern $f #Pattern %s $.'%(v,v))
        if ex: L+=ex[1]
        L.append('imp-is-pattern $a #Pattern ( \\imp ph0 ph1 ) $.')
        if self.use_app: L.append('app-is-pattern $a #Pattern ( \\app ph0 ph1 ) $.')
        for c,a in self.ctors.items(): L.append('%s-is-pattern $a #Pattern %s $.'%(c[1:],tstr((c,)+a)))
        for n,(a,b) in self.notations.items():
            L.append('%s-is-pattern $a #Pattern %s $.'%(n[1:],tstr((n,)+a)))
            L.append('%s-is-sugar $a #Notation %s %s $.'%(n[1:],tstr((n,)+a),tstr(b)))
        L.append('proof-rule-prop-1 $a |- ( \\imp ph0 ( \\imp ph1 ph0 ) ) $.')
        L.append('proof-rule-prop-2 $a |- ( \\imp ( \\imp ph0 ( \\imp ph1 ph2 ) ) ( \\imp ( \\imp ph0 ph1 ) ( \\imp ph0 ph2 ) ) ) $.')
        L.append('${ proof-rule-mp.0 $e |- ( \\imp ph0 ph1 ) $.\n   proof-rule-mp.1 $e |- ph0 $.\n   proof-rule-mp $a |- ph1 $. $}')
        for l,t in self.axioms.items(): L.append('%s $a |- %s $.'%(l,tstr(t)))
        for l,(hs,t) in self.rules.items():
            L.append('${ '+'\n   '.join('%s.%d $e |- %s $.'%(l,i,tstr(h)) for i,h in enumerate(hs))+'\n   %s $a |- %s $. $}'%(l,tstr(t)))
        if ex: L+=ex[2]
        return '\n'.join(L)
    # ---- assertions table: label -> (hyps terms, conclusion term)
    def assertions(self):
        A={'proof-rule-prop-1':([],('\\imp','ph0',('\\imp','ph1','ph0'))),
           'proof-rule-prop-2':([],('\\imp',('\\imp','ph0',('\\imp','ph1','ph2')),('\\imp',('\\imp','ph0','ph1'),('\\imp','ph0','ph2')))),
           'proof-rule-mp':([('\\imp','ph0','ph1'),'ph0'],'ph1')}
        for l,t in self.axioms.items(): A[l]=([],t)
        for l,(hs,t) in self.rules.items(): A[l]=(hs,t)
        return A
    def mand_vars(self,label):
        hs,t=self.assertions()[label]; vs=[]
        for x in hs+[t]: tvars(x,vs)
        return [v for v in self.float_order if v in vs]
    # ---- derivations: node = (label, sigma, [subnodes]) ; conclusion computed
    def concl(self,node):
        label,sigma,subs=node; return tsub(self.assertions()[label][1],sigma)
    def derive(self,depth,leaves):
        r=self.rnd; A=self.assertions()
        if depth==0 or r.random()<0.25:
            label=r.choice(['proof-rule-prop-1','proof-rule-prop-2']+list(self.axioms))
            sigma={v:self.rterm(1,leaves) for v in self.mand_vars(label)}
            return (label,sigma,[])
        k=r.random()
        if k<0.4:
            # MP with prop-1: from |- A get |- (imp X A)
            a=self.derive(depth-1,leaves); Acl=self.concl(a); X=self.rterm(1,leaves)
            p1=('proof-rule-prop-1',{'ph0':Acl,'ph1':X},[])
            return ('proof-rule-mp',{'ph0':Acl,'ph1':('\\imp',X,Acl)},[p1,a])
        if self.grules and k<0.55:
            # a ground rule: each hypothesis is literally a closed axiom
            label='grule-0'; hs,t=self.rules[label]
            subs=[(next(l for l,a in self.axioms.items() if a==h),{},[]) for h in hs]
            return (label,{},subs)
        # generated rule: prove hyps
        label=r.choice([l for l in self.rules if l not in self.grules]); hs,t=self.rules[label]; sigma={}; subs=[]
        for h in hs:
            if isinstance(h,str):
                if h in sigma: return self.derive(depth-1,leaves)
                s=self.derive(depth-1,leaves); sigma[h]=self.concl(s); subs.append(s)
            elif not (len(h)==3 and h[0]=='\\imp' and isinstance(h[1],str) and isinstance(h[2],str)):
                return self.derive(depth-1,leaves)  # hypothesis of a shape this generator cannot discharge
            else:
                # hyp (imp v w): need |- (imp S W): use prop-1 shape: (imp S (imp Y S))?? requires w:= (imp Y S) consistent
                v,w=h[1],h[2]
                if v in sigma or w in sigma or v==w:
                    return self.derive(depth-1,leaves)  # give up, simpler
                S=self.rterm(1,leaves); Y=self.rterm(1,leaves)
                sigma[v]=S; sigma[w]=('\\imp',Y,S); subs.append(('proof-rule-prop-1',{'ph0':S,'ph1':Y},[]))
        for v in self.mand_vars(label):
            if v not in sigma: sigma[v]=self.rterm(1,leaves)
        return (label,sigma,subs)
    # ---- proof emission (list of labels, uncompressed RPN)
    def syntax(self,t,out):
        if isinstance(t,str): out.append(t+'-is-pattern'); return
        head=t[0]
        if head=='\\imp': decl=('ph0','ph1'); lab='imp-is-pattern'
        elif head=='\\app': decl=('ph0','ph1'); lab='app-is-pattern'
        elif head in self.ctors: decl=self.ctors[head]; lab=head[1:]+'-is-pattern'
        else: decl=self.notations[head][0]; lab=head[1:]+'-is-pattern'
        amap=dict(zip(decl,t[1:]))
        for v in self.float_order:
            if v in amap: self.syntax(amap[v],out)
        out.append(lab)
    def emit(self,node,out):
        label,sigma,subs=node
        for v in self.mand_vars(label): self.syntax(sigma[v],out)
        for s in subs: self.emit(s,out)
        out.append(label)
    def compress(self,rpn,target_vars,zmode):
        mand=[v+'-is-pattern' for v in self.float_order if v in target_vars]
        labels=[]
        for l in rpn:
            if l not in mand and l not in labels: labels.append(l)
        # find repeated subproofs: need subproof extents -> recompute via arity simulation
        ar={}
        A=self.assertions()
        def arity(l):
            if l.endswith('-is-pattern') and l[:-11] in self.vars: return 0
            if l=='imp-is-pattern' or l=='app-is-pattern': return 2
            if l.endswith('-is-pattern'):
                h='\\'+l[:-11]
                return len(self.ctors[h]) if h in self.ctors else len(self.notations[h][0])
            return len(self.mand_vars(l))+len(A[l][0])
        # compute start index of subproof ending at i
        starts=[0]*len(rpn); stack=[]
        for i,l in enumerate(rpn):
            n=arity(l); s=i
            for _ in range(n): s=stack.pop()
            stack.append(s); starts[i]=s
        body=[]; saved={}  # key tuple(subproof) -> backref index
        i=0; out=[]
        # greedy left-to-right: we emit steps; when a complete subproof (len>=2) equals an earlier saved one, emit backref
        # simple approach: process recursively
        nsaved=[0]
        def emit_range(lo,hi):
            # emit subproof rpn[lo:hi+1] (hi is root)
            key=tuple(rpn[lo:hi+1])
            # layout 'dup': a subproof that is already marked is sometimes written out and marked again (legal: a compressor
            # need not reuse), so that two marked steps carry the same expression and later references pick the newer mark
            if key in saved and not (zmode=='dup' and self.rnd.random()<0.35):
                out.append(refmm.encode_num(len(mand)+len(labels)+saved[key]+1)); return
            # children
            n=arity(rpn[hi]); ends=[]; j=hi-1
            for _ in range(n):
                ends.append(j); j=starts[j]-1
            for e in reversed(ends): emit_range(starts[e],e)
            l=rpn[hi]
            out.append(refmm.encode_num(mand.index(l)+1 if l in mand else len(mand)+labels.index(l)+1))
            if hi>lo and (zmode in ('all','dup') or (zmode=='random' and self.rnd.random()<0.5)) and count[key]>1:
                out.append('Z'); saved[key]=nsaved[0]; nsaved[0]+=1
        import collections
        count=collections.Counter()
        for i in range(len(rpn)): count[tuple(rpn[starts[i]:i+1])]+=1
        emit_range(0,len(rpn)-1)
        return '( '+' '.join(labels)+' ) '+''.join(out)
def make(rnd, zmode='all', extras=False):
    g=Gen(rnd)
    if extras: g.extras=g.make_extras()
    nleaves=rnd.choice([0,1,2,2,3,3]); leaves=rnd.sample(g.vars,min(nleaves,g.nvars))
    node=g.derive(rnd.randint(2,4),leaves); goal=g.concl(node)
    rpn=[]; g.emit(node,rpn)
    texts={}
    for zm in ('none','all','random','dup'):
        proof=g.compress(rpn,tvars(goal),zm)
        texts[zm]=g.header()+'\ngoal $p |- %s $= %s $.\n'%(tstr(goal),proof)
    return g,goal,rpn,texts
if False:
    import sys
    ok=0
    for s in range(int(sys.argv[1])):
        g,goal,rpn,texts=make(random.Random(s))
        for zm,t in texts.items():
            try: refmm.parse_and_verify(t); ok+=1
            except Exception as e:
                print("seed",s,zm,"GENERATOR UNSOUND:",type(e).__name__,e); print(t); raise SystemExit
    print("all verified",ok)


class DrawRnd:
    """random.Random look-alike whose every choice is a Hypothesis draw (shrinkable, replayable)."""

    def __init__(self, draw):
        from hypothesis import strategies as st
        self.draw = draw; self.st = st

    def random(self):
        return self.draw(self.st.integers(0, 999)) / 1000.0

    def randint(self, a, b):
        return self.draw(self.st.integers(a, b))

    def choice(self, seq):
        seq = list(seq)
        return seq[self.draw(self.st.integers(0, len(seq) - 1))]

    def sample(self, seq, k):
        pool = list(seq); out = []
        for _ in range(k):
            out.append(pool.pop(self.draw(self.st.integers(0, len(pool) - 1))))
        return out

    def shuffle(self, lst):
        lst[:] = self.sample(lst, len(lst))
