"""Stand-in for the absent `pyk.kore.syntax` (and the `pyk.kllvm` modules imported next to it): plain frozen dataclasses
whose class names, field names and positional order are exactly those the code under test destructures in its `match`
statements and attribute accesses.  It is the interface the code itself defines, not a model of K."""
from __future__ import annotations

import sys
import types
from dataclasses import dataclass


class Sort:
    pass


@dataclass(frozen=True)
class SortVar(Sort):
    name: str


@dataclass(frozen=True)
class SortApp(Sort):
    name: str
    sorts: tuple = ()


class Pattern:
    pass


@dataclass(frozen=True)
class EVar(Pattern):
    name: str
    sort: Sort


@dataclass(frozen=True)
class SVar(Pattern):
    name: str
    sort: Sort


@dataclass(frozen=True)
class String:
    value: str


@dataclass(frozen=True)
class App(Pattern):
    symbol: str
    sorts: tuple = ()
    args: tuple = ()


@dataclass(frozen=True)
class Top(Pattern):
    sort: Sort


@dataclass(frozen=True)
class Bottom(Pattern):
    sort: Sort


@dataclass(frozen=True)
class Not(Pattern):
    sort: Sort
    pattern: Pattern


@dataclass(frozen=True)
class And(Pattern):
    sort: Sort
    ops: tuple


@dataclass(frozen=True)
class Or(Pattern):
    sort: Sort
    ops: tuple


@dataclass(frozen=True)
class Implies(Pattern):
    sort: Sort
    left: Pattern
    right: Pattern


@dataclass(frozen=True)
class Iff(Pattern):
    sort: Sort
    left: Pattern
    right: Pattern


@dataclass(frozen=True)
class Exists(Pattern):
    sort: Sort
    var: EVar
    pattern: Pattern


@dataclass(frozen=True)
class Forall(Pattern):
    sort: Sort
    var: EVar
    pattern: Pattern


@dataclass(frozen=True)
class Mu(Pattern):
    var: SVar
    pattern: Pattern


@dataclass(frozen=True)
class Nu(Pattern):
    var: SVar
    pattern: Pattern


@dataclass(frozen=True)
class Ceil(Pattern):
    op_sort: Sort
    sort: Sort
    pattern: Pattern


@dataclass(frozen=True)
class Floor(Pattern):
    op_sort: Sort
    sort: Sort
    pattern: Pattern


@dataclass(frozen=True)
class Equals(Pattern):
    op_sort: Sort
    sort: Sort
    left: Pattern
    right: Pattern


@dataclass(frozen=True)
class In(Pattern):
    op_sort: Sort
    sort: Sort
    left: Pattern
    right: Pattern


@dataclass(frozen=True)
class Next(Pattern):
    sort: Sort
    pattern: Pattern


@dataclass(frozen=True)
class Rewrites(Pattern):
    sort: Sort
    left: Pattern
    right: Pattern


@dataclass(frozen=True)
class DV(Pattern):
    sort: Sort
    value: String


@dataclass(frozen=True)
class Symbol:
    name: str
    vars: tuple = ()


@dataclass(frozen=True)
class Import:
    module_name: str
    attrs: tuple = ()


@dataclass(frozen=True)
class SortDecl:
    name: str
    vars: tuple = ()
    attrs: tuple = ()
    hooked: bool = False


@dataclass(frozen=True)
class SymbolDecl:
    symbol: Symbol
    param_sorts: tuple
    sort: Sort
    attrs: tuple = ()
    hooked: bool = False


@dataclass(frozen=True)
class Axiom:
    vars: tuple
    pattern: Pattern
    attrs: tuple = ()


@dataclass(frozen=True)
class Module:
    name: str
    sentences: tuple = ()
    attrs: tuple = ()


@dataclass(frozen=True)
class Definition:
    modules: tuple = ()
    attrs: tuple = ()


def install():
    """Register the shim as pyk.kore.syntax (+ empty pyk.kllvm.* modules) unless the real ones import."""
    try:
        import pyk.kore.syntax  # noqa: F401

        return False
    except Exception:
        pass
    me = sys.modules[__name__]
    try:
        import pyk  # the installed `pyk` is an unrelated package; keep it as the parent
    except Exception:
        pyk = types.ModuleType('pyk'); pyk.__path__ = []
        sys.modules['pyk'] = pyk
    kore_pkg = types.ModuleType('pyk.kore'); kore_pkg.__path__ = []
    kore_pkg.syntax = me
    sys.modules['pyk.kore'] = kore_pkg
    sys.modules['pyk.kore.syntax'] = me
    kllvm = types.ModuleType('pyk.kllvm'); kllvm.__path__ = []
    for sub in ('load', 'ast', 'convert'):
        m = types.ModuleType('pyk.kllvm.' + sub)
        setattr(kllvm, sub, m)
        sys.modules['pyk.kllvm.' + sub] = m
    sys.modules['pyk.kllvm.convert'].llvm_to_pattern = lambda x: x
    sys.modules['pyk.kllvm'] = kllvm
    pyk.kore = kore_pkg
    pyk.kllvm = kllvm
    return True
