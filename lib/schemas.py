"""Catalogue of the derived rules of proofs/propositional.py and tautology.py, transcribed from
their docstrings: for each entry point the argument kinds and the advertised conclusion, as
*sugared* shapes over schema variables.  Schema variable `p` is the reference metavariable
MV(100+k) (ids >= 100 never occur in generated patterns).

Used by C10 (every derived rule proves its schema), C08 (expression generator), C02/C03/C18/C19
(module generator).
"""
from __future__ import annotations

from hypothesis import strategies as st

from . import gens, histories as H, notations, refml as R

NAMES = 'pqrabcd'
VAR = {n: R.MV(100 + i) for i, n in enumerate(NAMES)}
p, q, r, a, b, c, d = (VAR[n] for n in NAMES)


def _N():
    import proof_generation.pattern as P

    return P


def Neg(x): return ('n', _N().neg, (x,))
def And(x, y): return ('n', _N()._and, (x, y))
def Or(x, y): return ('n', _N()._or, (x, y))
def Equiv(x, y): return ('n', _N().equiv, (x, y))
def Top(): return ('n', _N().top, ())
def Bot(): return ('n', _N().bot, ())
def I(x, y): return ('i', x, y)


class PAT:
    def __init__(self, var): self.var = var


class PF:
    def __init__(self, shape): self.shape = shape


class Entry:
    def __init__(self, name, args, conc, module='prop'):
        self.name, self.args, self.conc, self.module = name, args, conc, module


def catalogue():
    E = Entry
    P_ = lambda n: PAT(VAR[n])
    prop = [
        E('prop1_inst', [P_('p'), P_('q')], I(p, I(q, p))),
        E('prop2_inst', [P_('p'), P_('q'), P_('r')], I(I(p, I(q, r)), I(I(p, q), I(p, r)))),
        E('dneg_elim', [P_('p')], I(Neg(Neg(p)), p)),
        E('imp_refl', [P_('p')], I(p, p)),
        E('imp_provable', [P_('p'), PF(q)], I(p, q)),
        E('imp_transitivity', [PF(I(p, q)), PF(I(q, r))], I(p, r)),
        E('top_intro', [], Top()),
        E('bot_elim', [P_('p')], I(Bot(), p)),
        E('top_imp', [PF(p)], I(Top(), p)),
        E('imp_top', [P_('p')], I(p, Top())),
        E('ant_commutativity', [PF(I(p, I(q, r)))], I(q, I(p, r))),
        E('dneg_intro', [P_('p')], I(p, Neg(Neg(p)))),
        E('absurd', [P_('p'), P_('q')], I(Neg(p), I(p, q))),
        E('peirce_bot', [P_('p')], I(I(Neg(p), p), p)),
        E('imp_trans', [P_('p'), P_('q'), P_('r')], I(I(p, q), I(I(q, r), I(p, r)))),
        E('mpcom', [PF(p), P_('q')], I(I(p, q), q)),
        E('dni_l', [P_('p'), P_('q')], I(I(p, q), I(Neg(Neg(p)), q))),
        E('dni_l_i', [PF(I(p, q))], I(Neg(Neg(p)), q)),
        E('dni_r', [P_('p'), P_('q')], I(I(p, q), I(p, Neg(Neg(q))))),
        E('dni_r_i', [PF(I(p, q))], I(p, Neg(Neg(q)))),
        E('dne_l', [P_('p'), P_('q')], I(I(Neg(Neg(p)), q), I(p, q))),
        E('dne_l_i', [PF(I(Neg(Neg(p)), q))], I(p, q)),
        E('dne_r', [P_('p'), P_('q')], I(I(p, Neg(Neg(q))), I(p, q))),
        E('dne_r_i', [PF(I(p, Neg(Neg(q))))], I(p, q)),
        E('helper1', [PF(p), PF(I(q, r))], I(I(p, q), r)),
        E('a1d', [PF(I(p, q)), P_('r')], I(p, I(r, q))),
        E('con3', [P_('p'), P_('q')], I(I(p, q), I(Neg(q), Neg(p)))),
        E('con3_i', [PF(I(p, q))], I(Neg(q), Neg(p))),
        E('absurd2', [PF(I(p, q)), P_('r')], I(Neg(q), I(p, r))),
        E('lemma1', [P_('q'), PF(Neg(p))], I(I(q, p), Neg(q))),
        E('con1', [PF(I(Neg(p), q))], I(Neg(q), p)),
        E('absurd3', [PF(I(Neg(p), q)), PF(Neg(r))], I(I(q, r), p)),
        E('absurd4', [PF(I(p, Neg(q))), P_('r')], I(q, I(p, r))),
        E('absurd_i', [PF(Neg(p)), P_('q')], I(p, q)),
        E('and_not_r_intro', [PF(p), PF(Neg(q))], Neg(I(p, q))),
        E('imim_l', [P_('c'), PF(I(a, b))], I(I(b, c), I(a, c))),
        E('imim', [PF(I(a, b)), PF(I(c, d))], I(I(b, c), I(a, d))),
        E('imim_r', [P_('c'), PF(I(a, b))], I(I(c, a), I(c, b))),
        E('con2', [P_('p'), P_('q')], I(I(p, Neg(q)), I(q, Neg(p)))),
        E('imim_nnr', [PF(I(a, b)), PF(I(c, d))], I(I(b, c), I(Neg(Neg(a)), d))),
        E('imim_nnl', [PF(I(a, b)), PF(I(c, d))], I(I(Neg(Neg(b)), c), I(a, d))),
        E('imim_or', [PF(I(a, b)), PF(I(c, d))], I(Or(a, c), Or(b, d))),
        E('imim_and', [PF(I(a, b)), PF(I(c, d))], I(And(a, c), And(b, d))),
        E('imim_and_r', [P_('a'), PF(I(b, c))], I(And(a, b), And(a, c))),
        E('imim_and_l', [P_('c'), PF(I(a, b))], I(And(a, c), And(b, c))),
        E('imim_or_r', [P_('a'), PF(I(b, c))], I(Or(a, b), Or(a, c))),
        E('imim_or_l', [P_('c'), PF(I(a, b))], I(Or(a, c), Or(b, c))),
        E('and_intro', [PF(p), PF(q)], And(p, q)),
        E('and_l_imp', [P_('p'), P_('q')], I(And(p, q), p)),
        E('and_l', [PF(And(p, q))], p),
        E('and_r_imp', [P_('p'), P_('q')], I(And(p, q), q)),
        E('and_r', [PF(And(p, q))], q),
        E('imp_to_and', [PF(I(p, I(q, r)))], I(And(p, q), r)),
        E('ian', [P_('p'), P_('q')], I(p, I(q, And(p, q)))),
        E('sylc', [PF(I(b, I(c, d))), PF(I(a, b)), PF(I(a, c))], I(a, d)),
        E('iand', [PF(I(p, q)), PF(I(p, r))], I(p, And(q, r))),
    ]
    T = lambda *x, **k: Entry(*x, module='taut', **k)
    taut = [
        T('and_assoc_r', [P_('a'), P_('b'), P_('c')], I(And(And(a, b), c), And(a, And(b, c)))),
        T('and_assoc_l', [P_('a'), P_('b'), P_('c')], I(And(a, And(b, c)), And(And(a, b), c))),
        T('or_assoc_r', [P_('a'), P_('b'), P_('c')], I(Or(Or(a, b), c), Or(a, Or(b, c)))),
        T('or_assoc_l', [P_('a'), P_('b'), P_('c')], I(Or(a, Or(b, c)), Or(Or(a, b), c))),
        T('or_distr_r', [P_('a'), P_('b'), P_('c')], I(Or(And(a, b), c), And(Or(a, c), Or(b, c)))),
        T('or_distr_r_rev', [P_('a'), P_('b'), P_('c')], I(And(Or(a, c), Or(b, c)), Or(And(a, b), c))),
        T('or_distr_l', [P_('a'), P_('b'), P_('c')], I(Or(a, And(b, c)), And(Or(a, b), Or(a, c)))),
        T('or_distr_l_rev', [P_('a'), P_('b'), P_('c')], I(And(Or(a, b), Or(a, c)), Or(a, And(b, c)))),
        T('and_assoc', [P_('a'), P_('b'), P_('c')], Equiv(And(a, And(b, c)), And(And(a, b), c))),
        T('or_assoc', [P_('a'), P_('b'), P_('c')], Equiv(Or(a, Or(b, c)), Or(Or(a, b), c))),
        T('and_comm_imp', [P_('p'), P_('q')], I(And(p, q), And(q, p))),
        T('and_comm', [P_('p'), P_('q')], Equiv(And(p, q), And(q, p))),
        T('or_comm_imp', [P_('p'), P_('q')], I(Or(p, q), Or(q, p))),
        T('or_comm', [P_('p'), P_('q')], Equiv(Or(p, q), Or(q, p))),
        T('or_l_imp', [P_('p'), P_('q')], I(p, Or(p, q))),
        T('or_r_imp', [P_('p'), P_('q')], I(q, Or(p, q))),
        T('or_l', [PF(p), P_('q')], Or(p, q)),
        T('or_r', [PF(q), P_('p')], Or(p, q)),
        T('equiv_refl', [P_('p')], Equiv(p, p)),
        T('equiv_sym', [PF(Equiv(p, q))], Equiv(q, p)),
        T('equiv_transitivity', [PF(Equiv(p, q)), PF(Equiv(q, r))], Equiv(p, r)),
        T('and_cong', [PF(Equiv(a, b)), PF(Equiv(c, d))], Equiv(And(a, c), And(b, d))),
        T('or_cong', [PF(Equiv(a, b)), PF(Equiv(c, d))], Equiv(Or(a, c), Or(b, d))),
        T('resolution', [P_('p'), P_('a'), P_('b')], I(Or(Neg(p), a), I(Or(p, b), Or(a, b)))),
        T('resolution_r', [P_('p'), P_('b')], I(Neg(p), I(Or(p, b), b))),
        T('resolution_l', [P_('p'), P_('a')], I(Or(Neg(p), a), I(p, a))),
        T('resolution_base', [P_('p')], I(Neg(p), I(p, Bot()))),
        T('resolution_step', [PF(I(a, b)), PF(I(a, c)), PF(I(b, I(c, d)))], I(a, d)),
        T('long_imp_trans', [PF(I(a, I(b, c))), PF(I(c, d))], I(a, I(b, d))),
        T('or_idem', [P_('p')], Equiv(Or(p, p), p)),
        T('reduce_or_duplicates_at_front', [P_('p'), P_('q')], Equiv(Or(p, Or(p, q)), Or(p, q))),
    ]
    return prop + taut


HEAVY = {'and_assoc', 'or_assoc', 'and_comm', 'or_comm', 'equiv_refl', 'equiv_sym', 'equiv_transitivity', 'and_cong', 'or_cong',
         'or_idem', 'reduce_or_duplicates_at_front', 'and_assoc_r', 'and_assoc_l', 'iand', 'sylc', 'ian', 'imp_to_and', 'resolution_step',
         'imim_nnr', 'imim_nnl', 'imim_and', 'imim_and_l', 'imim_and_r', 'and_intro'}


def light_catalogue():
    """Entries whose proofs stay small (hundreds of instructions) - for checks that run each expression many times."""
    return [e for e in catalogue() if e.name not in HEAVY]


# ---------------------------------------------------------------------------
# schema instantiation and matching on sugared / reference trees


def subst_sugared(t, sigma):
    """Replace schema variables (MV ids >= 100) in sugared tree t by sugared trees."""
    k = t[0]
    if k == 'm':
        return sigma[t[1]] if t[1] >= 100 else t
    if k in ('e', 's', 'y'): return t
    if k == 'n': return ('n', t[1], tuple(subst_sugared(x, sigma) for x in t[2]))
    if k == 'inst': return ('inst', subst_sugared(t[1], sigma), tuple((i, subst_sugared(x, sigma)) for i, x in t[2]))
    if k in ('i', 'a'): return (k, subst_sugared(t[1], sigma), subst_sugared(t[2], sigma))
    if k in ('E', 'M'): return (k, t[1], subst_sugared(t[2], sigma))
    return (k, t[1], subst_sugared(t[2], sigma), subst_sugared(t[3], sigma))


def schema_vars(t, acc=None):
    acc = [] if acc is None else acc
    k = t[0]
    if k == 'm':
        if t[1] >= 100 and t[1] not in acc: acc.append(t[1])
    elif k == 'n':
        for x in t[2]: schema_vars(x, acc)
    elif k in ('i', 'a'): schema_vars(t[1], acc); schema_vars(t[2], acc)
    elif k in ('E', 'M'): schema_vars(t[2], acc)
    return acc


def match_ref(shape, inst, sigma):
    """First-order matching of an *expanded* shape against an expanded instance; binds ids >= 100."""
    if shape[0] == 'm' and shape[1] >= 100:
        if shape[1] in sigma: return sigma[shape[1]] == inst
        sigma[shape[1]] = inst
        return True
    if shape[0] != inst[0]: return False
    k = shape[0]
    if k in ('e', 's', 'y', 'm'): return shape == inst
    if k in ('i', 'a'): return match_ref(shape[1], inst[1], sigma) and match_ref(shape[2], inst[2], sigma)
    if k in ('E', 'M'): return shape[1] == inst[1] and match_ref(shape[2], inst[2], sigma)
    return shape[1] == inst[1] and match_ref(shape[2], inst[2], sigma) and match_ref(shape[3], inst[3], sigma)


class App:
    """One application of a catalogue entry (possibly with nested applications as premises)."""

    def __init__(self, entry, sigma, premises):
        self.entry, self.sigma, self.premises = entry, sigma, premises  # premises: list of ('axiom', sugared) | ('app', App)

    def conclusion(self):
        return subst_sugared(self.entry.conc, self.sigma)

    def describe(self):
        names = {100 + i: n for i, n in enumerate(NAMES)}
        return {'entry': self.entry.name, 'vars': {names[k]: gens.show_sugared(v) for k, v in self.sigma.items()},
                'premises': [pr[1].describe() if pr[0] == 'app' else 'axiom ' + gens.show_sugared(pr[1]) for pr in self.premises]}

    def to_json(self):
        return {'entry': self.entry.name, 'sigma': [[k, gens.sugared_to_json(v)] for k, v in sorted(self.sigma.items())],
                'premises': [[pr[0], pr[1].to_json() if pr[0] == 'app' else gens.sugared_to_json(pr[1])] for pr in self.premises]}

    @staticmethod
    def from_json(j):
        by_label = notations.registry()[1]
        ent = {e.name: e for e in catalogue()}[j['entry']]
        sigma = {k: gens.sugared_from_json(v, by_label) for k, v in j['sigma']}
        prem = [(kind, App.from_json(x) if kind == 'app' else gens.sugared_from_json(x, by_label)) for kind, x in j['premises']]
        return App(ent, sigma, prem)

    def depth(self):
        return 1 + max([pr[1].depth() for pr in self.premises if pr[0] == 'app'] + [0])

    def size(self):
        return 1 + sum(pr[1].size() for pr in self.premises if pr[0] == 'app')

    def axioms(self, acc=None):
        acc = [] if acc is None else acc
        for kind, x in self.premises:
            if kind == 'axiom': acc.append(x)
            else: x.axioms(acc)
        return acc

    def entries(self, acc=None):
        acc = [] if acc is None else acc
        acc.append(self.entry.name)
        for kind, x in self.premises:
            if kind == 'app': x.entries(acc)
        return acc

    def build(self, module, prop, taut):
        """-> ProofThunk, calling the real library entry point (premise axioms are declared on `module`)."""
        target = taut if self.entry.module == 'taut' else prop
        args = []
        it = iter(self.premises)
        for a in self.entry.args:
            if isinstance(a, PAT):
                args.append(gens.build_repo(self.sigma[a.var[1]]))
            else:
                kind, x = next(it)
                if kind == 'axiom':
                    pat = gens.build_repo(x)
                    module.add_axiom(pat)
                    args.append(module.load_axiom(pat))
                else:
                    args.append(x.build(module, prop, taut))
        return getattr(target, self.entry.name)(*args)


def draw_arg_pattern(draw, cfg, depth):
    pool, _, defs = H.pool()
    for _ in range(4):
        t = gens.draw_sugared(draw, cfg, depth, pool, False, defs)
        if gens.sugared_well_formed(t, defs):
            return t
    return R.MV(draw(st.sampled_from(cfg.ids)))


def _is_bot(t):
    return t == ('M', 0, ('s', 0)) or (t[0] == 'n' and t[1] is _N().bot)


def _neg_body(t):
    """a if t is (a -> bot) or neg(a), else None"""
    if t[0] == 'n' and t[1] is _N().neg: return t[2][0]
    if t[0] == 'i' and _is_bot(t[2]): return t[1]
    return None


def resugar_root(t):
    """An implication written with the propositional notations where its shape allows (several layers: a -> (b -> bot) -> bot
    is and(a, b), whose expansion is an implication only after two unfoldings); None when no notation fits.  The result is
    equal to t up to notation, so a rule that accepts t must accept it."""
    if t[0] != 'i': return None
    l, r = t[1], t[2]
    if _is_bot(r):
        if _is_bot(l): return Top()
        if l[0] == 'i' and _neg_body(l[2]) is not None: return And(l[1], _neg_body(l[2]))
        return Neg(l)
    if _neg_body(l) is not None: return Or(_neg_body(l), r)
    return None


def draw_app(draw, cfg, depth=2, entries=None, only=None, arg_depth=2):
    """Draw an application of a random catalogue entry; premises are declared axioms or (depth permitting)
    nested applications whose conclusion matches the required shape."""
    _, _, defs = H.pool()
    cat = entries or catalogue()
    ent = only or draw(st.sampled_from(cat))
    sigma = {}
    premises = []
    # argument aliasing: distinct schema variables bound to the *same* pattern (equal premises, p -> p shapes, ...) are the
    # inputs where shortcuts keyed on equality of arguments go wrong; independent draws almost never produce them
    alias = draw(st.sampled_from(['none', 'none', 'none', 'cycle2', 'random', 'same']))
    pool = [draw_arg_pattern(draw, cfg, draw(st.integers(0, arg_depth))) for _ in range({'cycle2': 2, 'same': 1}.get(alias, 0))]
    counter = [0]

    def new_arg():
        counter[0] += 1
        if alias == 'none' and draw(st.integers(0, 9)) == 0:
            return draw(st.sampled_from([Bot(), Bot(), Top(), Neg(draw_arg_pattern(draw, cfg, 0))]))   # constants: shapes that fold into notation
        if pool:
            return pool[(counter[0] - 1) % len(pool)]
        if alias == 'random' and sigma and draw(st.booleans()):
            return draw(st.sampled_from(list(sigma.values())))
        return draw_arg_pattern(draw, cfg, draw(st.integers(0, arg_depth)))

    for a in ent.args:
        if not isinstance(a, PF):
            continue
        nested = None
        if depth > 1 and draw(st.integers(0, 2)) > 0:
            # try a few nested candidates whose conclusion matches this premise's shape
            eshape = gens.expand_sugared(a.shape, defs)
            for _ in range(4):
                cand = draw_app(draw, cfg, depth - 1, cat, None, arg_depth)
                ec = gens.expand_sugared(cand.conclusion(), defs)
                trial = {k: gens.expand_sugared(v, defs) for k, v in sigma.items()}
                if match_ref(eshape, ec, trial):
                    for k, v in trial.items():
                        sigma.setdefault(k, v)
                    nested = cand
                    break
        if nested is not None:
            premises.append(('app', nested))
        else:
            sh = a.shape
            if sh[0] == 'i' and sh[1][0] == 'm' and sh[2][0] == 'm' and sh[1][1] >= 100 and sh[2][1] >= 100 and sh[1][1] not in sigma and sh[2][1] not in sigma \
                    and sh[1][1] != sh[2][1] and draw(st.integers(0, 7)) == 0:
                # an implication premise p -> q that is a conjunction / top / equivalence when written with notation (an
                # implication only after two or three unfoldings)
                x, y = draw_arg_pattern(draw, cfg, 0), draw_arg_pattern(draw, cfg, 0)
                form = draw(st.sampled_from(['and', 'top', 'equiv']))
                if form == 'and': sigma[sh[1][1]], sigma[sh[2][1]] = I(x, Neg(y)), Bot()
                elif form == 'top': sigma[sh[1][1]], sigma[sh[2][1]] = Bot(), Bot()
                else: sigma[sh[1][1]], sigma[sh[2][1]] = I(I(x, y), Neg(I(y, x))), Bot()
                prem0 = {'and': And(x, y), 'top': Top(), 'equiv': Equiv(x, y)}[form]
                premises.append(('axiom', prem0))
                continue
            for v in schema_vars(a.shape):
                if v not in sigma:
                    sigma[v] = new_arg()
            prem = subst_sugared(a.shape, sigma)
            alt = resugar_root(prem)
            if alt is not None and draw(st.booleans()):
                prem = alt      # the same premise written with notation (an implication only after unfolding, possibly twice)
            premises.append(('axiom', prem))
    for a in ent.args:
        if isinstance(a, PAT) and a.var[1] not in sigma:
            sigma[a.var[1]] = new_arg()
    for v in schema_vars(ent.conc):
        if v not in sigma:
            sigma[v] = new_arg()
    return App(ent, sigma, premises)


def make_module(apps, extra_axioms=(), with_taut=None):
    """A ProofExp whose claims are the conclusions of `apps` (proved by the library), importing
    Propositional (and Tautology when an entry needs it)."""
    from proof_generation.proof import ProofExp
    from proof_generation.proofs.propositional import Propositional
    from proof_generation.tautology import Tautology

    need_taut = with_taut if with_taut is not None else any(n in {e.name for e in catalogue() if e.module == 'taut'} for a in apps for n in a.entries())
    module = ProofExp()
    if need_taut:
        taut = module.import_module(Tautology())
        prop = taut
    else:
        prop = module.import_module(Propositional())
        taut = None
    for ax in extra_axioms:
        module.add_axiom(gens.build_repo(ax))
    thunks = [a.build(module, prop, taut) for a in apps]
    return module, prop, taut, thunks
