"""Child process of C18: serialise modules / translate databases listed on stdin (JSON) and print file digests.
Run as `python -m lib.c18_child` with cwd=/verif and PYTHONHASHSEED chosen by the parent."""
import contextlib
import hashlib
import io
import json
import os
import shutil
import sys
import tempfile


def digests(paths):
    out = []
    for p in paths:
        with open(p, 'rb') as f:
            out.append(hashlib.sha256(f.read()).hexdigest()[:20])
    return out


def main():
    sys.setrecursionlimit(20000)
    req = json.load(sys.stdin)
    sys.path.insert(0, req['repo_src'])
    from lib import modules as MD

    res = {}
    d = req.get('tmp') or tempfile.mkdtemp(prefix='c18_')
    try:
        for k, job in enumerate(req['jobs']):
            try:
                if job['kind'] == 'module':
                    if job.get('grow'):
                        # history: the module is serialised once, then grows (late import / notations), then is serialised
                        # again; the second output must be what a fresh build of the grown module gives
                        module, _ = MD.build_module(job['desc'], late=False)
                        MD.serialize(module, os.path.join(d, 'j%d-first' % k), 'm', job['fmt'], job['optimize'])
                        MD.apply_late(module, job['desc'])
                    else:
                        module, _ = MD.build_module(job['desc'])
                    out = os.path.join(d, 'j%d' % k)
                    MD.serialize(module, out, 'm', job['fmt'], job['optimize'])
                    exts = ('ml-gamma', 'ml-claim', 'ml-proof') if job['fmt'] == 'binary' else ('pretty-gamma', 'pretty-claim', 'pretty-proof')
                    res[job['id']] = digests([os.path.join(out, 'm.' + e) for e in exts])
                else:
                    from proof_generation.metamath import translate

                    path = os.path.join(d, 'db%d.mm' % k)
                    with open(path, 'w') as f:
                        f.write(job['text'])
                    out = os.path.join(d, 'o%d' % k)
                    old = sys.argv
                    sys.argv = ['translate', path, out, 'goal']
                    try:
                        with contextlib.redirect_stdout(io.StringIO()):
                            translate.main()
                    finally:
                        sys.argv = old
                    res[job['id']] = digests([os.path.join(out, 'db%d.%s' % (k, e)) for e in ('ml-gamma', 'ml-claim', 'ml-proof')])
            except BaseException as e:  # noqa: B036
                res[job['id']] = 'ERR:%s:%s' % (type(e).__name__, str(e)[:80])
    finally:
        shutil.rmtree(d, ignore_errors=True)
    json.dump(res, sys.stdout)


if __name__ == '__main__':
    main()
