"""Shared plumbing for the /verif checks: paths, seeds, statistics, evidence,
replay files, known findings, Hypothesis wrappers, process sharding.

Nothing in here looks at the code under test.
"""
from __future__ import annotations

import hashlib
import json
import os
import sys
import time
import traceback
from collections import Counter

VERIF = os.path.dirname(os.path.dirname(os.path.abspath(__file__)))
REPO = os.environ.get('PI2_REPO', '/repo')
REPO_SRC = os.path.join(REPO, 'generation', 'src')
BUILD = os.path.join(VERIF, '.build')
DEPS = os.path.join(VERIF, '.deps')
WHEELS = '/opt/veriftools/wheels'
NPROC = min(16, os.cpu_count() or 1)


class CaseTimeout(KeyboardInterrupt):
    """Raised by the per-example alarm (a KeyboardInterrupt subclass so that `except Exception` blocks in the checks, which
    turn exceptions of the code under test into violations, never see it)."""


class _case_alarm:
    def __init__(self, seconds):
        self.seconds = seconds

    def __enter__(self):
        import signal, threading

        self.active = self.seconds > 0 and threading.current_thread() is threading.main_thread() and hasattr(signal, 'SIGALRM')
        if self.active:
            def handler(signum, frame):
                raise CaseTimeout()
            self.old = signal.signal(signal.SIGALRM, handler)
            signal.alarm(self.seconds)
        return self

    def __exit__(self, *exc):
        import signal

        if self.active:
            signal.alarm(0)
            signal.signal(signal.SIGALRM, self.old)
        return False


class HarnessError(Exception):
    """Infrastructure failure (exit 2, never a VIOLATION)."""


def raised_in_repo(exc: BaseException) -> str | None:
    """If the innermost frame of exc's traceback is a source file of the repository under test, a one-line description
    ('ExcType: msg at file:line in func'); None when the exception comes from the harness's own code."""
    tb = exc.__traceback__
    last = None
    while tb is not None:
        last = tb
        tb = tb.tb_next
    if last is None:
        return None
    fn = last.tb_frame.f_code.co_filename
    if not os.path.abspath(fn).startswith(os.path.abspath(REPO) + os.sep):
        return None
    return '%s: %s at %s:%d in %s' % (type(exc).__name__, str(exc)[:120], os.path.relpath(fn, REPO), last.tb_lineno, last.tb_frame.f_code.co_name)


def _jsonable(case):
    try:
        json.dumps(case)
        return case
    except (TypeError, ValueError):
        pass
    if isinstance(case, dict):
        out = {}
        for k, v in case.items():
            try:
                json.dumps(v); out[k] = v
            except (TypeError, ValueError):
                try:
                    out[k] = json.loads(json.dumps(v, default=lambda o: list(o) if isinstance(o, (tuple, set, frozenset)) else repr(o)))
                except (TypeError, ValueError):
                    out[k] = repr(v)[:2000]
        return out
    return {'repr': repr(case)[:5000]}


def repo_exception_as_violation(exc: BaseException, case):
    """Every check handles the refusals its property allows (rules that raise, proofs the toolkit rejects, ...) itself; an
    exception that escapes to here from a frame of the repository means the code under test crashed on a generated input
    of the property's domain instead of producing the result the property speaks about."""
    where = raised_in_repo(exc)
    if where is None:
        return None
    short = where.split(' at ')[-1]
    return Violation('the code under test raised instead of returning a result on an input inside the property\'s domain: %s' % where,
                     _jsonable(case), 'raises:%s:%s' % (type(exc).__name__, short.split(' in ')[-1]))


def setup_paths() -> None:
    for p in (REPO_SRC, VERIF, DEPS):
        if p not in sys.path:
            sys.path.insert(0, p)


def ensure_deps() -> None:
    """hypothesis (and frozendict, which the repo needs) must import; install
    from the offline wheelhouse into .deps when they do not."""
    setup_paths()
    missing = []
    for mod in ('hypothesis',):
        try:
            __import__(mod)
        except Exception:
            missing.append(mod)
    if missing:
        import subprocess

        os.makedirs(DEPS, exist_ok=True)
        r = subprocess.run(
            [sys.executable, '-m', 'pip', 'install', '--no-index', '--find-links', WHEELS, '--target', DEPS, *missing],
            capture_output=True,
            text=True,
        )
        if r.returncode != 0:
            raise HarnessError('cannot install %s: %s' % (missing, r.stderr[-400:]))
        import importlib

        importlib.invalidate_caches()


def verif_seed() -> int:
    try:
        return int(os.environ.get('VERIF_SEED', '1'))
    except ValueError:
        return 1


def derive_seed(*parts) -> int:
    h = hashlib.sha256(repr(parts).encode()).digest()
    return int.from_bytes(h[:8], 'big')


def stable_hash(obj) -> int:
    if isinstance(obj, (bytes, bytearray)):
        b = bytes(obj)
    else:
        b = repr(obj).encode()
    return int.from_bytes(hashlib.blake2b(b, digest_size=8).digest(), 'big')


class Violation(Exception):
    """A property violation with a replayable description."""

    def __init__(self, msg: str, replay: dict, key: str = ''):
        super().__init__(msg)
        self.msg = msg
        self.replay = replay
        self.key = key  # stable key for KNOWN_FINDINGS matching


class Stats:
    """Counters a check fills while exploring; mergeable across shards."""

    MAX_SAMPLES = 8

    def __init__(self):
        self.evaluations = 0
        self.nontrivial: set[int] = set()
        self.classes: Counter = Counter()
        self.excluded: Counter = Counter()
        self.samples: list = []
        self.notes: list[str] = []
        self.exhaustive_parts: list[str] = []
        self.violations: list[dict] = []  # {'msg','replay','key'}

    def case(self, canon=None, nontrivial: bool = False, classes=(), sample=None):
        self.evaluations += 1
        for c in classes:
            self.classes[c] += 1
        if nontrivial:
            h = stable_hash(canon if canon is not None else self.evaluations)
            if h not in self.nontrivial:
                self.nontrivial.add(h)
                if sample is not None and len(self.samples) < self.MAX_SAMPLES:
                    self.samples.append(sample)
        elif sample is not None and not self.samples:
            self.samples.append(sample)

    def violation(self, v: Violation):
        self.violations.append({'msg': v.msg, 'replay': v.replay, 'key': v.key})

    def merge(self, other: 'Stats'):
        self.evaluations += other.evaluations
        self.nontrivial |= other.nontrivial
        self.classes.update(other.classes)
        self.excluded.update(other.excluded)
        for s in other.samples:
            if len(self.samples) < self.MAX_SAMPLES:
                self.samples.append(s)
        self.notes.extend(other.notes)
        self.exhaustive_parts.extend(other.exhaustive_parts)
        self.violations.extend(other.violations)
        return self


# ---------------------------------------------------------------------------
# Known findings


def load_known(prop: str) -> list[tuple[str, str]]:
    """[(key, text)] of `known:` entries for this property."""
    out = []
    path = os.path.join(VERIF, 'KNOWN_FINDINGS.txt')
    if not os.path.exists(path):
        return out
    for line in open(path, encoding='utf-8'):
        line = line.strip()
        if not line.startswith('known:'):
            continue
        rest = line[len('known:') :].strip()
        toks = rest.split(None, 2)
        if len(toks) < 2 or toks[0] != 'property=' + prop or not toks[1].startswith('key='):
            continue
        out.append((toks[1][4:], toks[2] if len(toks) > 2 else ''))
    return out


# ---------------------------------------------------------------------------
# Result reporting


def write_replay(prop: str, replay: dict) -> str:
    d = os.path.join(VERIF, 'replays', prop) if os.path.realpath(REPO) == '/repo' else os.path.join(BUILD, 'replays-scratch', prop)
    os.makedirs(d, exist_ok=True)
    body = json.dumps(replay, indent=1, sort_keys=True, default=str)
    name = hashlib.sha256(body.encode()).hexdigest()[:16] + '.json'
    path = os.path.join(d, name)
    with open(path, 'w', encoding='utf-8') as f:
        f.write(body)
    return path


def finish(prop: str, tier: str, stats: Stats, rule: str, assumptions: list[str], t0: float, extra: dict | None = None) -> int:
    """Write evidence, print KNOWN-FINDING / VIOLATION lines, return exit code."""
    known = load_known(prop)
    known_hit: dict[str, str] = {}
    unknown = []
    for v in stats.violations:
        hit = None
        for k, text in known:
            if v.get('key') and v['key'] == k:
                hit = (k, text)
                break
        if hit:
            known_hit[hit[0]] = hit[1]
        else:
            unknown.append(v)
    # a known finding is reported every run (it is a fact about the tree), whether or
    # not this run's generator tripped over it, as long as its regression replay fails;
    # checks add those via stats.violations from corpus replays.
    for k, text in known_hit.items():
        print('KNOWN-FINDING: property=%s %s (key=%s)' % (prop, text, k))
    cov = {
        'evaluations': stats.evaluations,
        'distinct_nontrivial': len(stats.nontrivial),
        'rule': rule,
        'samples': stats.samples[: Stats.MAX_SAMPLES] or ['(no sample recorded)'],
        'classes': dict(sorted(stats.classes.items(), key=lambda kv: str(kv[0]))),
        'excluded': dict(stats.excluded),
        'exhaustive': bool(stats.exhaustive_parts),
        'exhaustive_parts': stats.exhaustive_parts,
        'notes': stats.notes[:20],
    }
    if extra:
        cov.update(extra)
    ev = {
        'property_id': prop,
        'tier': tier,
        'seed': verif_seed(),
        'level': 'exploration',
        'coverage': cov,
        'assumptions': assumptions,
        'wall_s': round(time.time() - t0, 2),
        'violations': len(unknown),
        'known_findings_hit': sorted(known_hit),
        'repo': REPO,
    }
    # evidence under evidence/ only ever describes runs against the real repository
    evdir = os.path.join(VERIF, 'evidence') if os.path.realpath(REPO) == '/repo' else os.path.join(BUILD, 'evidence-scratch')
    os.makedirs(evdir, exist_ok=True)
    with open(os.path.join(evdir, prop + '.json'), 'w', encoding='utf-8') as f:
        json.dump(ev, f, indent=1, default=str)
        f.write('\n')
    seen = set()
    for v in unknown:
        path = write_replay(prop, {'property': prop, 'message': v['msg'], 'key': v.get('key', ''), 'case': v['replay']})
        if path in seen:
            continue
        seen.add(path)
        print('VIOLATION property=%s replay=%s' % (prop, path))
        print('  ' + v['msg'][:600].replace('\n', '\n  '))
    print(
        '%s %s: evaluations=%d distinct_nontrivial=%d violations=%d known=%d wall=%.1fs'
        % (prop, tier, stats.evaluations, len(stats.nontrivial), len(unknown), len(known_hit), time.time() - t0)
    )
    return 1 if unknown else 0


# ---------------------------------------------------------------------------
# Hypothesis wrappers


def hyp_settings(max_examples: int, shrink: bool = True):
    from hypothesis import HealthCheck, Phase, settings

    phases = [Phase.generate] + ([Phase.shrink] if shrink else [])
    return settings(
        max_examples=max_examples,
        database=None,
        deadline=None,
        derandomize=False,
        report_multiple_bugs=False,
        suppress_health_check=list(HealthCheck),
        phases=phases,
        print_blob=False,
    )


def run_given(stats: Stats, seed_val: int, max_examples: int, strategy, body, shrink: bool = True, budget_s: float | None = None) -> None:
    """Run body(case) over `strategy`; body raises Violation on a counterexample.
    The shrunk violation (if any) is recorded in stats; statistics gathered while
    shrinking are discarded by snapshotting/restoring around failures is not needed:
    body itself decides what to count (it is called with count=True only in the
    generate phase)."""
    import hypothesis
    from hypothesis import given

    state = {'failed': False, 'skipped': 0, 'timeouts': 0}
    case_limit = int(float(os.environ.get('VERIF_CASE_LIMIT_S', '0')) or (90 if os.environ.get('VERIF_TIER_ACTIVE', 'quick') == 'quick' else 400))
    if budget_s is None:
        budget_s = float(os.environ.get('VERIF_BUDGET_S', '0')) or (150.0 if os.environ.get('VERIF_TIER_ACTIVE', 'quick') == 'quick' else 2400.0)
    t_start = time.time()

    @hypothesis.seed(seed_val & 0xFFFFFFFFFFFFFFFF)
    @hyp_settings(max_examples, shrink)
    @given(strategy)
    def test(case):
        # wall-clock budget: once exhausted, remaining examples (and shrink candidates) are skipped,
        # which means "inconclusive for the remainder", never a violation
        now = time.time()
        if now - t_start > budget_s * (2.0 if state['failed'] else 1.0):
            state['skipped'] += 1
            return
        try:
            try:
                with _case_alarm(case_limit):
                    body(case, stats if not state['failed'] else Stats())
            except CaseTimeout:
                # safety net next to the size bounds: a single example that runs longer than the per-example limit is
                # abandoned and counted - inconclusive for that input, never a violation
                state['timeouts'] += 1
                return
            except (Violation, HarnessError):
                raise
            except Exception as e:  # noqa: BLE001 - classified by origin
                v2 = repo_exception_as_violation(e, case)
                if v2 is None:
                    raise
                raise v2 from e
        except Violation as v:
            state['failed'] = True
            if state.get('best') is None or len(repr(v.replay)) <= len(repr(state['best'].replay)):
                state['best'] = v
            raise

    try:
        test()
    except Violation as v:
        stats.violation(v)
    except hypothesis.errors.Unsatisfiable as e:  # generator problem, not a defect
        raise HarnessError('generator unsatisfiable: %s' % e)
    except BaseException as e:
        # Flaky / exception groups arise when the time budget cut shrinking short: report the smallest
        # violation seen instead (it was raised by the oracle on a real input)
        if state.get('best') is not None and not isinstance(e, (KeyboardInterrupt, SystemExit, HarnessError)):
            stats.violation(state['best'])
        else:
            raise
    if state['skipped']:
        stats.excluded['examples-skipped-after-time-budget'] += state['skipped']
    if state['timeouts']:
        stats.excluded['examples-abandoned-after-%ds-per-example-limit-(inconclusive)' % case_limit] += state['timeouts']


def run_machine(stats: Stats, seed_val: int, max_examples: int, steps: int, machine_cls) -> None:
    import hypothesis
    from hypothesis import HealthCheck, Phase, settings
    from hypothesis.stateful import run_state_machine_as_test

    st = settings(
        max_examples=max_examples,
        stateful_step_count=steps,
        database=None,
        deadline=None,
        report_multiple_bugs=False,
        suppress_health_check=list(HealthCheck),
        phases=[Phase.generate, Phase.shrink],
        print_blob=False,
    )
    try:
        run_state_machine_as_test(hypothesis.seed(seed_val & 0xFFFFFFFFFFFFFFFF)(machine_cls), settings=st)
    except Violation as v:
        stats.violation(v)


# ---------------------------------------------------------------------------
# Sharding


def _shard_entry(args):
    modname, fname, shard, nshards, seed_val, tier, kwargs = args
    setup_paths()
    os.environ.setdefault('PYTHONHASHSEED', '0')
    import importlib

    try:
        mod = importlib.import_module(modname)
        st = Stats()
        getattr(mod, fname)(st, shard, nshards, seed_val, tier, **kwargs)
        return ('ok', st)
    except Violation as v:  # body let one escape: still a violation
        st = Stats()
        st.violation(v)
        return ('ok', st)
    except Exception:
        return ('err', traceback.format_exc())


def run_sharded(stats: Stats, modname: str, fname: str, nshards: int, tier: str, **kwargs) -> None:
    """Run mod.fname(stats, shard, nshards, seed, tier, **kwargs) in `nshards` processes."""
    import multiprocessing as mp

    base = verif_seed()
    jobs = [(modname, fname, i, nshards, derive_seed(base, modname, fname, i), tier, kwargs) for i in range(nshards)]
    if nshards == 1:
        results = [_shard_entry(jobs[0])]
    else:
        ctx = mp.get_context('fork')
        with ctx.Pool(min(nshards, NPROC)) as pool:
            results = pool.map(_shard_entry, jobs, chunksize=1)
    for kind, payload in results:
        if kind == 'err':
            raise HarnessError('shard failed:\n' + payload)
        stats.merge(payload)
