import struct, subprocess, itertools, sys, random, collections
import refm
refm.TRUNC_OK=True
def pack(*xs): return b''.join(struct.pack('<I',len(x))+x for x in xs)
def rust(cases):
    data=b''.join(pack(*c) for c in cases)
    r=subprocess.run(['/tmp/pilot/harness'],input=data,capture_output=True)
    return r.stdout.decode().splitlines()
def compare(cases, label):
    outs=rust(cases); assert len(outs)==len(cases),(len(outs),len(cases))
    dis=collections.Counter(); ex={}
    for c,o in zip(cases,outs):
        r=refm.dump(refm.verify(*c))
        if r!=o:
            key=(r.split()[0], o.split()[0])
            dis[key]+=1; ex.setdefault(key,[])
            if len(ex[key])<4: ex[key].append((c,r[:150],o[:150]))
    print(label,"cases",len(cases),"disagreements",dict(dis))
    for k,v in ex.items():
        for c,r,o in v: print("  ",k,[x.hex() for x in c],"\n      ref:",r,"\n      rust:",o)
# exhaustive short proof-phase programs with prefix
alpha=list(range(2,31))+[137,0,1,31,255]
prefixes=[b'', bytes([137,0, 2,1, 3,1, 12]), bytes([2,0, 9,0,1,0,0,0,0,0, 15, 13])]
L=int(sys.argv[1])
for pre in prefixes:
    cases=[]
    for n in range(1,L+1):
        for t in itertools.product(alpha,repeat=n):
            cases.append((b'',b'',pre+bytes(t)))
    compare(cases,"prefix "+pre.hex())
