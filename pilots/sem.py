# pilot finite-model semantics for concrete patterns (tuples from refm)
import itertools, random
import refm
def fv(p, bound_e=frozenset(), bound_s=frozenset()):
    t=p[0]
    if t=='e': return ({p[1]} - bound_e, set())
    if t=='s': return (set(), {p[1]} - bound_s)
    if t=='y': return (set(),set())
    if t in ('i','a'):
        a=fv(p[1],bound_e,bound_s); b=fv(p[2],bound_e,bound_s); return (a[0]|b[0], a[1]|b[1])
    if t=='E': return fv(p[2], bound_e|{p[1]}, bound_s)
    if t=='M': return fv(p[2], bound_e, bound_s|{p[1]})
    raise ValueError(p)
def symbols(p):
    t=p[0]
    if t=='y': return {p[1]}
    if t in ('e','s'): return set()
    if t in ('i','a'): return symbols(p[1])|symbols(p[2])
    return symbols(p[2])
def has_app(p):
    t=p[0]
    if t=='a': return True
    if t in ('e','s','y'): return False
    if t=='i': return has_app(p[1]) or has_app(p[2])
    return has_app(p[2])
def ev(p, n, sym, app, re, rs):
    FULL=(1<<n)-1
    t=p[0]
    if t=='e': return 1<<re[p[1]]
    if t=='s': return rs[p[1]]
    if t=='y': return sym[p[1]]
    if t=='i': return ((~ev(p[1],n,sym,app,re,rs))&FULL) | ev(p[2],n,sym,app,re,rs)
    if t=='a':
        l=ev(p[1],n,sym,app,re,rs); r=ev(p[2],n,sym,app,re,rs); out=0
        for a in range(n):
            if l>>a&1:
                for b in range(n):
                    if r>>b&1: out|=app[a*n+b]
        return out
    if t=='E':
        out=0; re2=dict(re)
        for a in range(n):
            re2[p[1]]=a; out|=ev(p[2],n,sym,app,re2,rs)
        return out
    if t=='M':
        cur=0; rs2=dict(rs)
        for _ in range(n+2):
            rs2[p[1]]=cur; nxt=ev(p[2],n,sym,app,re,rs2)
            if nxt==cur: return cur
            cur=nxt
        raise ValueError('non-monotone mu')
    raise ValueError(p)
def wf_concrete(p):
    t=p[0]
    if t in ('e','s','y'): return True
    if t in ('i','a'): return wf_concrete(p[1]) and wf_concrete(p[2])
    if t=='E': return wf_concrete(p[2])
    if t=='M': return wf_concrete(p[2]) and refm.positive(p[2],p[1])
    return False
def find_countermodel(p, rnd, tries=60):
    """p concrete, well formed. returns a description or None"""
    fe,fs=fv(p); syms=sorted(symbols(p)); ha=has_app(p)
    for n in (1,2,3):
        FULL=(1<<n)-1
        for _ in range(tries if n>1 else 4):
            sym={s:rnd.randrange(FULL+1) for s in syms}
            app=[rnd.randrange(FULL+1) for _ in range(n*n)] if ha else []
            # all valuations when small
            es=sorted(fe); ss=sorted(fs)
            vals_e=list(itertools.product(range(n),repeat=len(es)))
            vals_s=list(itertools.product(range(FULL+1),repeat=len(ss)))
            if len(vals_e)*len(vals_s)>256:
                combos=[(rnd.choice(vals_e),rnd.choice(vals_s)) for _ in range(64)]
            else: combos=itertools.product(vals_e,vals_s)
            for ve,vs in combos:
                re=dict(zip(es,ve)); rs=dict(zip(ss,vs))
                if ev(p,n,sym,app,re,rs)!=FULL:
                    return dict(n=n,sym=sym,app=app,re=re,rs=rs)
    return None
