// appended to /repo/rust/src/lib.rs (minus its #![..] lines) to build the pilot harness
extern crate std;
use std::io::Read;
use std::panic::{catch_unwind, AssertUnwindSafe};
use std::string::String;
use std::format;
fn show(p: &Pattern, out: &mut String) {
    match p {
        Pattern::EVar(i) => out.push_str(&format!("(e {})", i)),
        Pattern::SVar(i) => out.push_str(&format!("(s {})", i)),
        Pattern::Symbol(i) => out.push_str(&format!("(y {})", i)),
        Pattern::Implies { left, right } => { out.push_str("(i "); show(left, out); out.push(' '); show(right, out); out.push(')'); }
        Pattern::App { left, right } => { out.push_str("(a "); show(left, out); out.push(' '); show(right, out); out.push(')'); }
        Pattern::Exists { var, subpattern } => { out.push_str(&format!("(E {} ", var)); show(subpattern, out); out.push(')'); }
        Pattern::Mu { var, subpattern } => { out.push_str(&format!("(M {} ", var)); show(subpattern, out); out.push(')'); }
        Pattern::MetaVar { id, e_fresh, s_fresh, positive, negative, app_ctx_holes } => out.push_str(&format!("(m {} {:?} {:?} {:?} {:?} {:?})", id, e_fresh, s_fresh, positive, negative, app_ctx_holes)),
        Pattern::ESubst { pattern, evar_id, plug } => { out.push_str(&format!("(es {} ", evar_id)); show(pattern, out); out.push(' '); show(plug, out); out.push(')'); }
        Pattern::SSubst { pattern, svar_id, plug } => { out.push_str(&format!("(ss {} ", svar_id)); show(pattern, out); out.push(' '); show(plug, out); out.push(')'); }
    }
}
fn main() {
    std::panic::set_hook(std::boxed::Box::new(|_| {}));
    let mut buf = Vec::new();
    std::io::stdin().read_to_end(&mut buf).unwrap();
    let mut pos = 0usize;
    let rd = |pos: &mut usize| -> Vec<u8> { let n = u32::from_le_bytes([buf[*pos],buf[*pos+1],buf[*pos+2],buf[*pos+3]]) as usize; *pos += 4; let v = buf[*pos..*pos+n].to_vec(); *pos += n; v };
    let mut outs = String::new();
    while pos < buf.len() {
        let g = rd(&mut pos); let c = rd(&mut pos); let p = rd(&mut pos);
        let r = catch_unwind(AssertUnwindSafe(|| {
            let mut claims: Claims = vec![]; let mut memory: Memory = vec![]; let mut stack: Stack = vec![];
            execute_instructions(&g, &mut stack, &mut memory, &mut claims, ExecutionPhase::Gamma);
            stack.clear();
            execute_instructions(&c, &mut stack, &mut memory, &mut claims, ExecutionPhase::Claim);
            stack.clear();
            execute_instructions(&p, &mut stack, &mut memory, &mut claims, ExecutionPhase::Proof);
            let mut s = String::new();
            if !claims.is_empty() { return String::from("REJECT"); }
            s.push_str("ACCEPT");
            for t in &stack { match t { Term::Pattern(p) => { s.push_str(" |P "); show(p, &mut s);} Term::Proved(p) => { s.push_str(" |T "); show(p, &mut s);} } }
            s.push_str(" #");
            for t in &memory { match t { Entry::Pattern(p) => { s.push_str(" |P "); show(p, &mut s);} Entry::Proved(p) => { s.push_str(" |T "); show(p, &mut s);} } }
            s
        }));
        match r { Ok(s) => { outs.push_str(&s); outs.push('\n'); } Err(_) => outs.push_str("REJECT\n") }
    }
    std::print!("{}", outs);
}
