import refmm,glob
for f in ['/repo/generation/mm-benchmarks/impreflex.mm','/repo/generation/mm-benchmarks/impreflex-compressed-goal.mm','/repo/generation/mm-benchmarks/transfer-simple-compressed-goal.mm','/repo/generation/mm-benchmarks/perceptron-goal.mm','/repo/generation/mm-benchmarks/svm5-goal.mm','/repo/generation/mm-benchmarks/disjointness-alt-lemma.mm']:
    try: r=refmm.parse_and_verify(open(f).read()); print(f.split('/')[-1],'verified',list(r.keys()))
    except Exception as e: print(f.split('/')[-1],'ERR',type(e).__name__,str(e)[:200])
assert all(refmm.decode_num(refmm.encode_num(n))==n for n in range(1,100000)); print(refmm.encode_num(20),refmm.encode_num(21),refmm.encode_num(120),refmm.encode_num(121),refmm.encode_num(620),refmm.encode_num(621))
