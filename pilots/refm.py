# pilot reference machine (doc semantics + conventions); patterns as tuples
class Reject(Exception): pass
def E(i): return ('e',i)
def S(i): return ('s',i)
def Y(i): return ('y',i)
def I(a,b): return ('i',a,b)
def A(a,b): return ('a',a,b)
def EX(v,p): return ('E',v,p)
def MU(v,p): return ('M',v,p)
def MV(i,ef=(),sf=(),po=(),ne=(),ho=()): return ('m',i,tuple(ef),tuple(sf),tuple(po),tuple(ne),tuple(ho))
def ES(p,v,g): return ('es',v,p,g)
def SS(p,v,g): return ('ss',v,p,g)
BOT=MU(0,S(0))
def NOT(p): return I(p,BOT)
def e_fresh(p,x):
    t=p[0]
    if t=='e': return p[1]!=x
    if t in ('s','y'): return True
    if t=='m': return x in p[2]
    if t in ('i','a'): return e_fresh(p[1],x) and e_fresh(p[2],x)
    if t=='E': return p[1]==x or e_fresh(p[2],x)
    if t=='M': return e_fresh(p[2],x)
    if t=='es':
        if x==p[1]: return e_fresh(p[3],x)
        return e_fresh(p[2],x) and e_fresh(p[3],x)
    if t=='ss': return e_fresh(p[2],x) and e_fresh(p[3],x)
def s_fresh(p,x):
    t=p[0]
    if t=='s': return p[1]!=x
    if t in ('e','y'): return True
    if t=='m': return x in p[3]
    if t in ('i','a'): return s_fresh(p[1],x) and s_fresh(p[2],x)
    if t=='E': return s_fresh(p[2],x)
    if t=='M': return p[1]==x or s_fresh(p[2],x)
    if t=='es': return s_fresh(p[2],x) and s_fresh(p[3],x)
    if t=='ss':
        if x==p[1]: return s_fresh(p[3],x)
        return s_fresh(p[2],x) and s_fresh(p[3],x)
def positive(p,x):
    t=p[0]
    if t in ('e','s','y'): return True
    if t=='m': return x in p[4]
    if t=='i': return negative(p[1],x) and positive(p[2],x)
    if t=='a': return positive(p[1],x) and positive(p[2],x)
    if t=='E': return positive(p[2],x)
    if t=='M': return p[1]==x or positive(p[2],x)
    if t=='es': return positive(p[2],x) and s_fresh(p[3],x)
    if t=='ss':
        v,pat,plug=p[1],p[2],p[3]
        pp = s_fresh(plug,x) or (positive(pat,v) and positive(plug,x)) or (negative(pat,v) and negative(plug,x))
        if x==v: return pp
        return positive(pat,x) and pp
def negative(p,x):
    t=p[0]
    if t in ('e','y'): return True
    if t=='s': return p[1]!=x
    if t=='m': return x in p[5]
    if t=='i': return positive(p[1],x) and negative(p[2],x)
    if t=='a': return negative(p[1],x) and negative(p[2],x)
    if t=='E': return negative(p[2],x)
    if t=='M': return p[1]==x or negative(p[2],x)
    if t=='es': return negative(p[2],x) and s_fresh(p[3],x)
    if t=='ss':
        v,pat,plug=p[1],p[2],p[3]
        pn = s_fresh(plug,x) or (positive(pat,v) and negative(plug,x)) or (negative(pat,v) and positive(plug,x))
        if x==v: return pn
        return negative(pat,x) and pn
STRICT_CAPTURE=True; FRESH_SHORTCUT=True; TRUNC_OK=False
def apply_esubst(p,x,g):
    t=p[0]
    if t=='e': return g if p[1]==x else p
    if t in ('s','y'): return p
    if t in ('i','a'): return (t,apply_esubst(p[1],x,g),apply_esubst(p[2],x,g))
    if t=='E':
        if p[1]==x: return p
        if not e_fresh(g,p[1]): raise Reject('capture')
        return EX(p[1],apply_esubst(p[2],x,g))
    if t=='M':
        if STRICT_CAPTURE and not s_fresh(g,p[1]): raise Reject('capture-mu')
        return MU(p[1],apply_esubst(p[2],x,g))
    if t=='m' and FRESH_SHORTCUT and x in p[2]: return p
    return ES(p,x,g)
def apply_ssubst(p,x,g):
    t=p[0]
    if t=='s': return g if p[1]==x else p
    if t in ('e','y'): return p
    if t in ('i','a'): return (t,apply_ssubst(p[1],x,g),apply_ssubst(p[2],x,g))
    if t=='E':
        if STRICT_CAPTURE and not e_fresh(g,p[1]): raise Reject('capture-ex')
        return EX(p[1],apply_ssubst(p[2],x,g))
    if t=='M':
        if p[1]==x: return p
        if not s_fresh(g,p[1]): raise Reject('capture')
        return MU(p[1],apply_ssubst(p[2],x,g))
    if t=='m' and FRESH_SHORTCUT and x in p[3]: return p
    return SS(p,x,g)
def inst(p,ids,plugs):
    t=p[0]
    if t in ('e','s','y'): return p
    if t=='m':
        if p[1] in ids:
            k=ids.index(p[1]); g=plugs[k]
            for x in p[2]:
                if not e_fresh(g,x): raise Reject('efresh')
            for x in p[3]:
                if not s_fresh(g,x): raise Reject('sfresh')
            for x in p[4]:
                if not positive(g,x): raise Reject('pos')
            for x in p[5]:
                if not negative(g,x): raise Reject('neg')
            return g
        return p
    if t in ('i','a'): return (t,inst(p[1],ids,plugs),inst(p[2],ids,plugs))
    if t in ('E','M'): return (t,p[1],inst(p[2],ids,plugs))
    if t=='es':
        a=inst(p[2],ids,plugs); b=inst(p[3],ids,plugs)
        if a==p[2] and b==p[3]: return p
        return apply_esubst(a,p[1],b)
    if t=='ss':
        a=inst(p[2],ids,plugs); b=inst(p[3],ids,plugs)
        if a==p[2] and b==p[3]: return p
        return apply_ssubst(a,p[1],b)
PHI0,PHI1,PHI2=MV(0),MV(1),MV(2)
PROP1=I(PHI0,I(PHI1,PHI0)); PROP2=I(I(PHI0,I(PHI1,PHI2)),I(I(PHI0,PHI1),I(PHI0,PHI2))); PROP3=I(NOT(NOT(PHI0)),PHI0)
QUANT=I(ES(PHI0,0,E(1)),EX(0,PHI0)); EXISTENCE=EX(0,E(0))
def run(buf,stack,memory,claims,phase):
    it=iter(buf)
    def nxt():
        try: return next(it)
        except StopIteration: raise Reject('truncated')
    def pop():
        if not stack: raise Reject('underflow')
        return stack.pop()
    def popP():
        k,p=pop()
        if k!='P': raise Reject('kind')
        return p
    def popT():
        k,p=pop()
        if k!='T': raise Reject('kind')
        return p
    for op in it:
        if op==2: stack.append(('P',E(nxt())))
        elif op==3: stack.append(('P',S(nxt())))
        elif op==4: stack.append(('P',Y(nxt())))
        elif op==5: r=popP(); l=popP(); stack.append(('P',I(l,r)))
        elif op==6: r=popP(); l=popP(); stack.append(('P',A(l,r)))
        elif op==7:
            v=nxt(); p=popP()
            if not positive(p,v): raise Reject('mu')
            stack.append(('P',MU(v,p)))
        elif op==8: v=nxt(); p=popP(); stack.append(('P',EX(v,p)))
        elif op==9:
            i=nxt(); ls=[]
            for _ in range(5):
                n=nxt(); ls.append(tuple(nxt() for _ in range(n)))
            if any(h in ls[0] for h in ls[4]): raise Reject('mv')
            stack.append(('P',MV(i,*ls)))
        elif op==137: stack.append(('P',MV(nxt())))
        elif op in (10,11):
            v=nxt(); pat=popP(); plug=popP()
            if pat[0] not in ('m','es','ss'): raise Reject('subst-target')
            if op==10:
                if plug==E(v) or e_fresh(pat,v): raise Reject('redundant')
                stack.append(('P',ES(pat,v,plug)))
            else:
                if plug==S(v) or s_fresh(pat,v): raise Reject('redundant')
                stack.append(('P',SS(pat,v,plug)))
        elif op==12: stack.append(('T',PROP1))
        elif op==13: stack.append(('T',PROP2))
        elif op==14: stack.append(('T',PROP3))
        elif op==15: stack.append(('T',QUANT))
        elif op==19: stack.append(('T',EXISTENCE))
        elif op==21:
            p2=popT(); p1=popT()
            if p1[0]!='i' or p1[1]!=p2: raise Reject('mp')
            stack.append(('T',p1[2]))
        elif op==22:
            p=popT()
            if p[0]!='i': raise Reject('gen')
            v=nxt()
            if not e_fresh(p[2],v): raise Reject('gen-fresh')
            stack.append(('T',I(EX(v,p[1]),p[2])))
        elif op==24:
            v=nxt(); p=popT(); g=popP()
            stack.append(('T',apply_ssubst(p,v,g)))
        elif op==26:
            n=nxt(); k,mt=pop(); ids=[];plugs=[]
            for _ in range(n):
                if TRUNC_OK:
                    try: b=next(it)
                    except StopIteration: break
                    ids.append(b)
                else: ids.append(nxt())
                plugs.append(popP())
            stack.append((k,inst(mt,ids,plugs)))
        elif op==27: pop()
        elif op==28:
            if not stack: raise Reject('save')
            memory.append(stack[-1])
        elif op==29:
            i=nxt()
            if i>=len(memory): raise Reject('load')
            stack.append(memory[i])
        elif op==30:
            if phase==0: memory.append(('T',popP()))
            elif phase==1: claims.append(popP())
            else:
                if not claims: raise Reject('noclaim')
                c=claims.pop(); t=popT()
                if c!=t: raise Reject('claim')
        else: raise Reject('opcode')
def verify(g,c,p):
    stack=[];memory=[];claims=[]
    try:
        run(g,stack,memory,claims,0); stack=[]
        run(c,stack,memory,claims,1); stack=[]
        run(p,stack,memory,claims,2)
    except Reject as e: return ('REJECT',str(e))
    if claims: return ('REJECT','claims-left')
    return ('ACCEPT',stack,memory)
def show(p):
    t=p[0]
    if t in ('e','s','y'): return '(%s %d)'%(t,p[1])
    if t in ('i','a'): return '(%s %s %s)'%(t,show(p[1]),show(p[2]))
    if t in ('E','M'): return '(%s %d %s)'%(t,p[1],show(p[2]))
    if t=='m': return '(m %d %s %s %s %s %s)'%(p[1],*[str(list(x)) for x in p[2:]])
    return '(%s %d %s %s)'%(t,p[1],show(p[2]),show(p[3]))
def dump(res):
    if res[0]=='REJECT': return 'REJECT'
    return 'ACCEPT'+''.join(' |%s %s'%(k,show(p)) for k,p in res[1])+' #'+''.join(' |%s %s'%(k,show(p)) for k,p in res[2])
