import struct, subprocess, collections
import refm
def pack(*xs): return b''.join(struct.pack('<I',len(x))+x for x in xs)
def rust(cases):
    data=b''.join(pack(*c) for c in cases)
    r=subprocess.run(['/tmp/pilot/harness'],input=data,capture_output=True)
    return r.stdout.decode().splitlines()
def compare(cases,label,show=4):
    outs=rust(cases); assert len(outs)==len(cases)
    dis=collections.Counter(); ex={}; acc=0
    for c,o in zip(cases,outs):
        res=refm.verify(*c); r=refm.dump(res)
        if o.startswith('ACCEPT'): acc+=1
        if r!=o:
            why = res[1] if res[0]=='REJECT' else ''
            key=(r.split()[0], o.split()[0], why)
            dis[key]+=1; ex.setdefault(key,[])
            if len(ex[key])<show: ex[key].append((c,r[:300],o[:300]))
    print(label,"cases",len(cases),"rust-accepts",acc,"disagreements",dict(dis))
    for k,v in ex.items():
        for c,r,o in v: print("  ",k,[x.hex() for x in c],"\n      ref:",r,"\n      rust:",o)
