import random, sys, collections
import refm, sem, genlib
seed=int(sys.argv[1]); N=int(sys.argv[2]); mode=sys.argv[3]
genlib.rnd=random.Random(seed); rnd=random.Random(seed+1)
if mode=='fixed': refm.STRICT_CAPTURE=True; refm.FRESH_SHORTCUT=True; refm.TRUNC_OK=False
else: refm.STRICT_CAPTURE=False; refm.FRESH_SHORTCUT=False; refm.TRUNC_OK=True
# concrete plug pool
def cpat(d):
    if d==0 or rnd.random()<0.35: return rnd.choice([refm.E(0),refm.E(1),refm.E(2),refm.S(0),refm.S(1),refm.S(2),refm.Y(0),refm.BOT])
    k=rnd.choice('iaEM')
    if k=='i': return refm.I(cpat(d-1),cpat(d-1))
    if k=='a': return refm.A(cpat(d-1),cpat(d-1))
    if k=='E': return refm.EX(rnd.randrange(3),cpat(d-1))
    for _ in range(5):
        v=rnd.randrange(3); b=cpat(d-1)
        if refm.positive(b,v): return refm.MU(v,b)
    return refm.S(0)
def metavars(p,acc):
    t=p[0]
    if t=='m': acc.setdefault(p[1],[]).append(p)
    elif t in ('i','a'): metavars(p[1],acc); metavars(p[2],acc)
    elif t in ('E','M'): metavars(p[2],acc)
    elif t in ('es','ss'): metavars(p[2],acc); metavars(p[3],acc)
    return acc
def admissible(mv,g):
    return all(refm.e_fresh(g,x) for x in mv[2]) and all(refm.s_fresh(g,x) for x in mv[3]) and all(refm.positive(g,x) for x in mv[4]) and all(refm.negative(g,x) for x in mv[5])
stats=collections.Counter(); bad=[]
for i in range(N):
    prog=genlib.prog2() if rnd.random()<0.8 else genlib.prog()
    res=refm.verify(b'',b'',prog)
    if res[0]!='ACCEPT': stats['rejected']+=1; continue
    proved=[p for k,p in res[1]+res[2] if k=='T']
    if not proved: stats['noproved']+=1; continue
    for th in proved:
        stats['theorems']+=1
        mvs=metavars(th,{})
        for _ in range(4):
            # pick admissible concrete instance per metavar id (all occurrences share id; constraints may differ per occurrence -> need all)
            ids=[];plugs=[];ok=True
            for mid,occ in mvs.items():
                for _t in range(30):
                    g=cpat(2)
                    if all(admissible(o,g) for o in occ): break
                else: ok=False;break
                ids.append(mid);plugs.append(g)
            if not ok: stats['noadmissible']+=1; continue
            try: c=refm.inst(th,ids,plugs)
            except refm.Reject: stats['inst-capture']+=1; continue
            if not sem.wf_concrete(c):
                stats['ILLFORMED']+=1; bad.append(('illformed',prog.hex(),refm.show(th),refm.show(c))); continue
            cm=sem.find_countermodel(c,rnd)
            stats['evaluated']+=1
            if cm: stats['INVALID']+=1; bad.append(('invalid',prog.hex(),refm.show(th),refm.show(c),cm))
print(mode,dict(stats))
seen=set()
for b in bad:
    if b[2] in seen: continue
    seen.add(b[2]); print(b[:4], b[4] if len(b)>4 else '')
    if len(seen)>8: break
