import random, subprocess, tempfile, os, sys, shutil, collections, hashlib
from multiprocessing import Pool
import mmgen
def one(seed):
    rnd=random.Random(seed); g,goal,rpn,texts=mmgen.make(rnd); t=texts['all']; digs=[]
    for hs in ('0','1','2','3','77'):
        d=tempfile.mkdtemp(prefix='c18_')
        try:
            open(d+'/db.mm','w').write(t)
            env=dict(os.environ, PYTHONPATH=os.environ.get('PILOT_SRC','/repo/generation/src'), PYTHONHASHSEED=hs)
            r=subprocess.run(['/venv/bin/python','-m','proof_generation.metamath.translate',d+'/db.mm',d+'/out','goal'],capture_output=True,text=True,env=env)
            if r.returncode!=0: digs.append('FAIL'); continue
            h=hashlib.sha256()
            for ext in ('ml-gamma','ml-claim','ml-proof'): h.update(open(d+'/out/db.'+ext,'rb').read()); h.update(b'|')
            digs.append(h.hexdigest()[:12])
        finally: shutil.rmtree(d,ignore_errors=True)
    return seed,digs,len(mmgen.tvars(goal))
if __name__=='__main__':
    N=int(sys.argv[1]); cnt=collections.Counter(); ex={}
    with Pool(16) as p:
        for seed,digs,nv in p.imap_unordered(one, range(N)):
            k=('same' if len(set(digs))==1 else 'DIFF', 'fail' if 'FAIL' in digs else 'ok', 'nv>=2' if nv>=2 else 'nv<2')
            cnt[k]+=1; ex.setdefault(k,(seed,digs))
    for k,v in cnt.most_common(): print(v,k,ex[k])
