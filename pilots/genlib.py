import random, sys
import refm, diff_lib
rnd=random.Random(0)
def patbytes(d):
    # returns bytes constructing a random pattern (may be ill-formed)
    r=rnd.random()
    if d==0 or r<0.3:
        k=rnd.choice(['e','s','y','m','mc'])
        i=rnd.randrange(3)
        if k=='e': return bytes([2,i])
        if k=='s': return bytes([3,i])
        if k=='y': return bytes([4,i])
        if k=='m': return bytes([137,i])
        ls=[[rnd.randrange(3) for _ in range(rnd.choice([0,0,1,2]))] for _ in range(4)]+[[]]
        out=[9,i]
        for l in ls: out+= [len(l)]+l
        return bytes(out)
    k=rnd.choice(['i','a','E','M','es','ss'])
    if k in 'ia': return patbytes(d-1)+patbytes(d-1)+bytes([5 if k=='i' else 6])
    if k=='E': return patbytes(d-1)+bytes([8,rnd.randrange(3)])
    if k=='M': return patbytes(d-1)+bytes([7,rnd.randrange(3)])
    tgt=rnd.choice([bytes([137,rnd.randrange(3)]), patbytes(1)])
    return patbytes(d-1)+tgt+bytes([10 if k=='es' else 11, rnd.randrange(3)])
REFL=lambda: bytes([137,0,28,27, 29,0,29,0,5,28,27, 29,0,29,1,13,26,2,1,2, 29,1,12,26,1,1,21, 29,0,12,26,1,1,21])  # uses memory slots 0,1: only valid at start
def prog():
    out=b''
    n=rnd.randrange(1,10)
    have_refl=False
    for _ in range(n):
        r=rnd.random()
        if r<0.35: out+=patbytes(rnd.randrange(0,4))
        elif r<0.45: out+=bytes([rnd.choice([12,13,14,15,19])])
        elif r<0.6:
            k=rnd.randrange(0,3); out+=bytes([26,k]+[rnd.randrange(3) for _ in range(k)])
        elif r<0.65: out+=bytes([21])
        elif r<0.72: out+=bytes([22,rnd.randrange(3)])
        elif r<0.8: out+=bytes([24,rnd.randrange(3)])
        elif r<0.85: out+=bytes([28])
        elif r<0.9: out+=bytes([29,rnd.randrange(4)])
        elif r<0.93: out+=bytes([27])
        else: out+=bytes([rnd.randrange(256)])
    return out
def prog2():
    # plugs first, then refl, then instantiate/gen/subst
    out=b''
    for _ in range(rnd.randrange(0,4)): out+=patbytes(rnd.randrange(0,3))
    out+=REFL()
    for _ in range(rnd.randrange(1,6)):
        r=rnd.random()
        if r<0.4:
            k=rnd.randrange(1,3); out+=bytes([26,k]+[rnd.randrange(2) for _ in range(k)])
        elif r<0.7: out+=bytes([22,rnd.randrange(3)])
        else: out+=bytes([24,rnd.randrange(3)])
    return out
