import random, subprocess, tempfile, os, sys, shutil, collections, re
from multiprocessing import Pool
import mmgen, refmm
ENV=dict(os.environ, PYTHONPATH=os.environ.get('PILOT_SRC','/repo/generation/src'), PYTHONHASHSEED='0')
def one(seed):
    rnd=random.Random(seed)
    g,goal,rpn,texts=mmgen.make(rnd)
    nv=len(mmgen.tvars(goal)); res=[]
    for zm,t in texts.items():
        d=tempfile.mkdtemp(prefix='c16_')
        try:
            open(d+'/db.mm','w').write(t)
            r=subprocess.run(['/venv/bin/python','-m','proof_generation.metamath.translate',d+'/db.mm',d+'/out','goal'],capture_output=True,text=True,env=ENV)
            if r.returncode!=0:
                tb=r.stderr.strip().splitlines()
                loc=[l.strip() for l in tb if l.strip().startswith('File "/repo')]
                res.append((zm,'TRANSLATE-FAIL',nv,(tb[-1][:80] if tb else ''), loc[-1] if loc else ''))
                continue
            c=subprocess.run(['/tmp/ck/checker',d+'/out/db.ml-gamma',d+'/out/db.ml-claim',d+'/out/db.ml-proof'],capture_output=True,text=True)
            if c.returncode!=0:
                res.append((zm,'CHECKER-REJECT',nv,c.stderr.strip().splitlines()[1][:100] if c.stderr else '',''))
            else: res.append((zm,'OK',nv,'',''))
        finally: shutil.rmtree(d,ignore_errors=True)
    return seed,res,len(rpn)
if __name__=='__main__':
    N=int(sys.argv[1]); cnt=collections.Counter(); ex={}
    with Pool(16) as p:
        for seed,res,n in p.imap_unordered(one, range(N)):
            for zm,st,nv,msg,loc in res:
                key=(st,'nv>=2' if nv>=2 else 'nv<2',msg,loc[-60:])
                cnt[key]+=1; ex.setdefault(key,(seed,zm,n))
    for k,v in cnt.most_common(): print(v,k,"e.g.",ex[k])
