#!/venv/bin/python
"""Entry point of the /verif checks.

  check.py <ID> [--tier quick|thorough]     run the check for property <ID>
  check.py <ID> --replay FILE               re-run the oracle on a saved case
  check.py --setup                          install wheels if needed, build the Rust harness

exit 0: property held on everything explored; exit 1: `VIOLATION property=<ID> replay=<path>`
printed; exit 2: harness error (never a violation).
"""
from __future__ import annotations

import importlib
import json
import os
import sys
import time
import traceback

if os.environ.get('PYTHONHASHSEED') != '0':
    # the checks are a pure function of (tree, VERIF_SEED, tier): pin the hash seed
    os.environ['PYTHONHASHSEED'] = '0'
    os.execv(sys.executable, [sys.executable] + sys.argv)

HERE = os.path.dirname(os.path.abspath(__file__))
sys.path.insert(0, HERE)
from lib import common  # noqa: E402

sys.setrecursionlimit(20000)


def main(argv):
    if len(argv) >= 2 and argv[1] == '--setup':
        try:
            common.ensure_deps()
            from lib import rustharness

            print('harness:', rustharness.build_harness())
            print('checker:', rustharness.build_checker())
            return 0
        except Exception:
            traceback.print_exc()
            return 2
    if len(argv) < 2:
        print(__doc__)
        return 2
    prop = argv[1].upper()
    tier = os.environ.get('VERIF_TIER', 'quick')
    replay = None
    i = 2
    while i < len(argv):
        if argv[i] == '--tier':
            tier = argv[i + 1]; i += 2
        elif argv[i] == '--replay':
            replay = argv[i + 1]; i += 2
        else:
            print('unknown argument', argv[i]); return 2
    if tier not in ('quick', 'thorough'):
        tier = 'quick'
    os.environ['VERIF_TIER_ACTIVE'] = tier
    try:
        common.ensure_deps()
        mod = importlib.import_module('checks.' + prop.lower())
    except Exception:
        traceback.print_exc()
        return 2
    t0 = time.time()
    try:
        if replay:
            case = json.load(open(replay, encoding='utf-8'))
            try:
                try:
                    mod.replay(case.get('case', case))
                except (common.Violation, common.HarnessError):
                    raise
                except Exception as e:  # noqa: BLE001
                    v2 = common.repo_exception_as_violation(e, case.get('case', case))
                    if v2 is None:
                        raise
                    raise v2 from e
            except common.Violation as v:
                print('VIOLATION property=%s replay=%s' % (prop, replay))
                print('  ' + v.msg[:1000])
                return 1
            print('%s replay: no violation' % prop)
            return 0
        return mod.run(tier, t0)
    except common.HarnessError as e:
        print('HARNESS-ERROR %s: %s' % (prop, e))
        return 2
    except Exception:
        print('HARNESS-ERROR %s (unexpected exception in the check itself)' % prop)
        traceback.print_exc()
        return 2


if __name__ == '__main__':
    sys.exit(main(sys.argv))
