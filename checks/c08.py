"""C08 — a proof means the same under every interpreter.

Parts
  hist   interpreter-level programs (lib/histories.py traces, the way translate.exec_proof drives an interpreter),
         including empty / singleton / identity instantiations, replayed under every interpreter stack
  thunk  ProofExp-level expressions (library lemma compositions from lib/schemas.py, optionally wrapped in
         dynamic_inst / universal_gen), run through a module's three phases under every interpreter stack
All stacks must agree on success/failure and on every conclusion, and conclusions equal the advertised `conc`.
Serialising stacks additionally replay on the reference machine.
"""
from __future__ import annotations

import io

from hypothesis import strategies as st

from lib import common, gens, histories as H, refmachine as M, refml as R, schemas as S
from lib.common import Stats, Violation

PROP = 'C08'
RULE = (
    'Hypothesis-generated interpreter-level call traces and library proof expressions, each evaluated under 11 interpreter '
    'stacks (basic, stateful, counting, serializing, pretty-printing, memoizing over stateful/serializing/pretty with the '
    'counting analysis or a random pattern set, instantiation-optimizer, two-level stacks). non-trivial = expression with >= 3 '
    'rule applications evaluated on >= 6 stacks; distinct by expression shape and arguments'
)
ASSUME = [
    'traces follow the stack discipline of the DSL (operands are the terms previous calls returned)',
    'instantiations are admissible and capture-free (DESIGN 2.3)',
]
CFG = H.CFG
MAX_PROOF_BYTES = 30000
STACKS = ['basic', 'stateful', 'counting', 'serializing', 'pretty', 'memo-stateful', 'memo-serializing', 'memo-pretty-analysis', 'memo-serializing-analysis',
          'instopt-stateful', 'memo-instopt-serializing', 'instopt-memo-stateful']


class Sink(io.BytesIO):
    def close(self):
        pass


class TSink(io.StringIO):
    def close(self):
        pass


def make_stack(kind, claims_pats, memo_set, pretty_options=None):
    """-> (interpreter, byte sinks or None)"""
    from proof_generation.basic_interpreter import BasicInterpreter
    from proof_generation.claim import Claim
    from proof_generation.counting_interpreter import CountingInterpreter
    from proof_generation.interpreter import ExecutionPhase
    from proof_generation.optimizing_interpreters import InstantiationOptimizer, MemoizingInterpreter
    from proof_generation.pretty_printing_interpreter import PrettyPrintingInterpreter
    from proof_generation.serializing_interpreter import SerializingInterpreter
    from proof_generation.stateful_interpreter import StatefulInterpreter

    claims = [Claim(c) for c in claims_pats]
    G = ExecutionPhase.Gamma
    sinks = None

    def ser():
        nonlocal sinks
        sinks = [Sink(), Sink(), Sink()]
        return SerializingInterpreter(G, sinks[0], claims, sinks[1], sinks[2])

    def pretty():
        ts = [TSink(), TSink(), TSink()]
        return PrettyPrintingInterpreter(G, ts[0], claims, ts[1], ts[2], pretty_options)

    if kind == 'basic': it = BasicInterpreter(G)
    elif kind == 'stateful': it = StatefulInterpreter(G, claims)
    elif kind == 'counting': it = CountingInterpreter(G, claims)
    elif kind == 'serializing': it = ser()
    elif kind == 'pretty': it = pretty()
    elif kind == 'memo-stateful': it = MemoizingInterpreter(StatefulInterpreter(G, claims), set(memo_set))
    elif kind == 'memo-serializing': it = MemoizingInterpreter(ser(), set(memo_set))
    elif kind == 'memo-pretty-analysis': it = MemoizingInterpreter(pretty(), set(memo_set))
    elif kind == 'memo-serializing-analysis': it = MemoizingInterpreter(ser(), set(memo_set))   # what serialize(optimize=True) runs
    elif kind == 'instopt-stateful': it = InstantiationOptimizer(StatefulInterpreter(G, claims))
    elif kind == 'memo-instopt-serializing': it = MemoizingInterpreter(InstantiationOptimizer(ser()), set(memo_set))
    elif kind == 'instopt-memo-stateful': it = InstantiationOptimizer(MemoizingInterpreter(StatefulInterpreter(G, claims), set(memo_set)))
    else: raise ValueError(kind)
    return it, sinks


def subpatterns(obj, acc):
    import proof_generation.pattern as P

    acc.append(obj)
    for f in ('left', 'right', 'subpattern', 'pattern', 'plug'):
        v = getattr(obj, f, None)
        if isinstance(v, P.Pattern):
            subpatterns(v, acc)
    if isinstance(obj, P.Instantiate):
        for v in obj.inst.values():
            subpatterns(v, acc)


# ---------------------------------------------------------------------------
# strategies


@st.composite
def cases(draw):
    from proof_generation.basic_interpreter import BasicInterpreter
    from proof_generation.interpreter import ExecutionPhase

    if draw(st.integers(0, 5)) == 0:
        # "alias" scenario: a memoised notation application that *expands to* a metavariable / pending substitution, and the
        # written-out form used afterwards as the target of a substitution (where the interpreters insist on the class)
        from lib import notations as N

        by_label = N.registry()[1]
        mv = R.MV(draw(st.sampled_from(CFG.ids)))
        v = draw(st.sampled_from(CFG.ids))
        kind = draw(st.sampled_from(['es', 'ss']))
        plug = R.Y('a') if draw(st.booleans()) else (R.E((v + 1) % 3) if kind == 'es' else R.S((v + 1) % 3))
        alias = ('n', by_label[draw(st.sampled_from(['foo', 'snd']))], None)
        args = (mv, R.E(0), R.E(1)) if alias[1].label == 'foo' else (R.E(0), mv)
        alias = ('n', alias[1], args)
        inner = draw(st.sampled_from([mv, alias]))
        axioms = [alias, ('i', (kind, v, mv, plug), inner), ('i', alias, (kind, v, mv, plug))]
        axioms = axioms[: draw(st.integers(2, 3))]
        specs = [('axiom', i) for i in range(len(axioms))]
        trace = [['publish_axiom']] * len(axioms) + [['to_claim']] + [['publish_claim']] * len(axioms) + [['to_proof']] + [['prove_claim']] * len(axioms)
        # memoise the notation application but (half of the time) not the written-out form, so that the alias is what memory holds
        return {'part': 'hist', 'setup': H.setup_to_json(axioms, specs), 'trace': trace, 'memo_pick': 1 if draw(st.booleans()) else draw(st.integers(0, 2 ** 30)), 'alias': True}
    if draw(st.booleans()):
        axioms, specs = H.draw_setup(draw)
        r = H.Runner(BasicInterpreter(ExecutionPhase.Gamma), axioms, specs)
        trace = []
        for _ in range(draw(st.integers(3, 25))):
            step = H.draw_step(draw, r)
            try:
                r.apply(step)
            except H.Skip:
                continue
            except Exception:
                break
            trace.append(step)
        return {'part': 'hist', 'setup': H.setup_to_json(axioms, specs), 'trace': trace, 'memo_pick': draw(st.integers(0, 2 ** 30))}
    if draw(st.integers(0, 13)) == 0:
        n = draw(st.sampled_from([40, 80, 84, 85, 86, 87, 90, 100, 120, 127, 128, 129, 130, 160, 200]))
        return {'part': 'thunk', 'apps': [], 'wrap': 'none', 'wrap_arg': None, 'memo_pick': draw(st.integers(0, 2 ** 30)),
                'scale': {'n': n, 'shape': draw(st.sampled_from(['twice', 'chain', 'imp'])), 'picks': sorted(set([0, n - 1] + draw(st.lists(st.integers(0, n - 1), max_size=2))))}}
    _, _, defs = H.pool()
    apps = []
    for _ in range(draw(st.integers(1, 2))):
        a = S.draw_app(draw, CFG, depth=draw(st.integers(1, 2)), entries=S.light_catalogue(), arg_depth=1)
        if R.size(gens.expand_sugared(a.conclusion(), defs)) > 60:
            # the library's proofs grow super-linearly with the size of the statement: keep expressions bounded by size
            a = S.draw_app(draw, CFG, depth=1, entries=S.light_catalogue(), arg_depth=0)
        apps.append(a)
    wrap = draw(st.sampled_from(['none', 'none', 'dynamic_inst', 'dynamic_inst_empty', 'universal_gen']))
    wrap_arg = None
    if wrap == 'dynamic_inst':
        # admissible plugs: a metavariable carrying (at least) the constraints declared on the instantiated one
        _, _, defs = H.pool()
        nodes = {}
        for a in apps:
            for nd in R.metavar_nodes(gens.expand_sugared(a.conclusion(), defs)):
                nodes.setdefault(nd[1], []).append(nd)
        wrap_arg = []
        for k in draw(st.lists(st.sampled_from(CFG.ids), max_size=2, unique=True)):
            nds = nodes.get(k, [])
            merged = [tuple(sorted({x for nd in nds for x in nd[i]})) for i in (2, 3, 4, 5)]
            wrap_arg.append([k, gens.to_json(R.MV(draw(st.sampled_from(CFG.ids)), *merged))])
    elif wrap == 'universal_gen':
        wrap_arg = draw(st.sampled_from(CFG.ids))
    return {'part': 'thunk', 'apps': apps, 'wrap': wrap, 'wrap_arg': wrap_arg, 'memo_pick': draw(st.integers(0, 2 ** 30))}


def case_json(c):
    if c['part'] == 'hist':
        return c
    out = dict(c)
    out['apps'] = [a.to_json() for a in c['apps']]
    return out


def case_from_json(j):
    if j['part'] == 'hist':
        return j
    out = dict(j)
    out['apps'] = [S.App.from_json(a) for a in j['apps']]
    return out


def pick_memo(cands, pick):
    out = []
    for i, c in enumerate(cands):
        if (pick >> (i % 30)) & 1:
            out.append(c)
    return out


# ---------------------------------------------------------------------------


def run_hist(c, kind, memo_set):
    axioms, specs = H.setup_from_json(c['setup'])
    cps = H.Runner.claim_patterns(axioms, specs)
    it, sinks = make_stack(kind, cps, memo_set)
    r = H.Runner(it, axioms, specs)
    applied = []
    for i, step in enumerate(c['trace']):
        try:
            r.apply(step)
            applied.append(i)
        except H.Skip:
            continue
        except Exception as e:
            return ('fail', i, type(e).__name__, str(e)[:200]), None, None
    return ('ok', applied, [R.from_repo(x) for x in r.results]), sinks, r


def prepare_thunks(c):
    """Build the module once; -> (module, thunks, advertised conclusions, analysis memo set)"""
    from proof_generation.claim import Claim
    from proof_generation.counting_interpreter import CountingInterpreter
    from proof_generation.interpreter import ExecutionPhase
    from proof_generation.proofs.substitution import Substitution
    import proof_generation.pattern as P

    if c.get('scale'):
        # scale: a theory with many axioms, so that memory indices approach the 256 slots a Load can address and the
        # analysis has to budget its memoisation suggestions
        from proof_generation.proof import ProofExp

        n, shape = c['scale']['n'], c['scale']['shape']
        syms = [P.Symbol('c%d' % i) for i in range(n)]
        if shape == 'twice': axioms = [P.App(x, x) for x in syms]
        elif shape == 'chain': axioms = [P.App(syms[i], syms[(i + 1) % n]) for i in range(n)]
        else: axioms = [P.Implies(x, P.App(x, syms[0])) for x in syms]
        module = ProofExp(axioms=list(axioms), claims=[])
        thunks = [module.load_axiom(axioms[i % n]) for i in c['scale']['picks']]
        prop = taut = None
    else:
        module, prop, taut, thunks = S.make_module(c['apps'])
    advertised = []
    final = []
    for th in thunks:
        if c['wrap'] == 'dynamic_inst':
            delta = {k: R.to_repo(gens.from_json(v)) for k, v in c['wrap_arg']}
            th = module.dynamic_inst(th, delta)
        elif c['wrap'] == 'dynamic_inst_empty':
            th = module.dynamic_inst(th, {})
        elif c['wrap'] == 'universal_gen':
            sub = Substitution()
            sub.prop = prop
            th = Substitution.universal_gen(sub, th, P.EVar(c['wrap_arg']))
        final.append(th)
        advertised.append(R.from_repo(th.conc))
    # claims must be distinct (add_claim asserts it): keep first occurrence
    seen = []
    keep = []
    for th, adv in zip(final, advertised):
        if adv in seen: continue
        seen.append(adv); keep.append(th)
    final = keep; advertised = seen
    module._claims = [th.conc for th in final]
    module._proof_expressions = list(final)
    analyzer = CountingInterpreter(ExecutionPhase.Gamma, [Claim(x) for x in module._claims])
    module.execute_full(analyzer)
    memo_all = analyzer.finalize()
    return module, final, advertised, memo_all


def run_thunks(c, kind, prepared):
    module, final, advertised, memo_all = prepared
    memo_set = memo_all if kind.endswith('-analysis') else set(pick_memo(sorted(memo_all, key=str), c['memo_pick']))
    it, sinks = make_stack(kind, module._claims, memo_set, module.pretty_options())
    try:
        module.execute_gamma_phase(it)
        module.execute_claims_phase(it)
        results = []
        for th in final:
            results.append(R.from_repo(module.publish_proof(th)(it).conclusion))
    except Exception as e:
        import traceback

        tb = traceback.extract_tb(e.__traceback__)
        loc = [f for f in tb if '/proof_generation/' in f.filename]
        return ('fail', type(e).__name__, str(e)[:200], loc[-1].name if loc else ''), None, advertised
    return ('ok', results), sinks, advertised


def body(c, stats: Stats):
    import time as _t
    _t0 = _t.time()
    try:
        return _body(c, stats)
    finally:
        if _t.time() - _t0 > 8:
            stats.notes.append('slow case %.0fs: %s' % (_t.time() - _t0, (c['part'], len(c.get('trace', [])), [a.entries() for a in c.get('apps', [])], c.get('wrap'))))


def _body(c, stats: Stats):
    cj = case_json(c)
    outcomes = {}
    machine_checked = 0
    if c['part'] == 'hist':
        # memoisation candidates: patterns occurring in the setup
        axioms, specs = H.setup_from_json(c['setup'])
        cands = []
        for t in axioms + [v for k, v in specs if k != 'axiom']:
            subpatterns(gens.build_repo(t), cands)
        memo = pick_memo(cands, c['memo_pick'])
        for kind in STACKS:
            out, sinks, r = run_hist(c, kind, memo)
            outcomes[kind] = out
            if out[0] == 'ok' and sinks is not None:
                res = M.run_prefix(*[s.getvalue() for s in sinks])
                machine_checked += 1
                if res[0] != 'ACCEPT':
                    raise Violation('[hist] bytes emitted under stack %s are rejected by the documented machine (%s)' % (kind, res[1]), cj, 'hist-machine:' + kind)
        n_rules = len(c['trace'])
        descr = 'trace of %d steps' % n_rules
    else:
        advertised = None
        try:
            prepared = prepare_thunks(c)
        except Exception as e:
            raise Violation('[thunk] building / analysing %s raised %s: %s' % ([a.describe() for a in c['apps']], type(e).__name__, str(e)[:300]), cj, 'thunk-build')
        known_redundant = False
        for kind in ['serializing'] + [k for k in STACKS if k != 'serializing']:
            out, sinks, adv = run_thunks(c, kind, prepared)
            outcomes[kind] = out
            advertised = adv
            if kind == 'serializing' and sinks is not None and len(sinks[2].getvalue()) > MAX_PROOF_BYTES:
                # bounded by generated size, not by time: very large proofs are only run under one stack
                stats.excluded['thunk-proof-larger-than-%d-bytes-run-under-one-stack' % MAX_PROOF_BYTES] += 1
                break
            if out[0] == 'ok' and sinks is not None:
                res = M.verify(*[s.getvalue() for s in sinks])
                machine_checked += 1
                if res[0] != 'ACCEPT' and 'redundant' in res[1] and (known_redundant or kind == 'serializing' or not all(R.well_formed(a) for a in advertised)):
                    known_redundant = True
                    # known finding recorded under C02 (KNOWN_FINDINGS.txt, key checker-rejects:redundant-subst): the toolkit stacks
                    # a substitution on a pending substitution that already removes the variable; the machine refuses to build the
                    # term.  Not an interpreter disagreement: the machine part of the oracle is skipped for this case (counted),
                    # the agreement of the interpreters among themselves is still judged below.
                    stats.excluded['thunk-machine-oracle-skipped:known-C02-redundant-subst'] += 1
                    machine_checked -= 1
                    continue
                if res[0] != 'ACCEPT':
                    raise Violation('[thunk] module serialised under stack %s is rejected by the documented machine (%s): %s wrap=%s %s'
                                    % (kind, res[1], [a.describe() for a in c['apps']], c['wrap'], c['wrap_arg']), cj, 'thunk-machine:' + kind)
                bij = R.SymbolBijection()
                if len(res[1].proved) != len(advertised) or not all(bij.unify(a, b) for a, b in zip(advertised, res[1].proved)):
                    raise Violation('[thunk] stack %s: the machine discharged %s, advertised %s' % (kind, [R.show(x) for x in res[1].proved], [R.show(x) for x in advertised]), cj, 'thunk-machine-conc:' + kind)
        n_rules = sum(a.size() for a in c['apps']) * 3 + (3 if c.get('scale') else 0)
        descr = (('theory of %(n)d axioms (%(shape)s), claims = axioms %(picks)s' % c['scale']) if c.get('scale') else str([a.describe() for a in c['apps']])) + (' wrapped in %s %s' % (c['wrap'], c['wrap_arg']) if c['wrap'] != 'none' else '')
        for kind, out in outcomes.items():
            if out[0] == 'ok' and out[1] != advertised:
                raise Violation('[thunk] under %s the proof concludes %s but advertises %s before it is run: %s'
                                % (kind, [R.show(x) for x in out[1]], [R.show(x) for x in advertised], descr), cj, 'thunk-advertised:' + kind)
    statuses = {k: v[0] for k, v in outcomes.items()}
    oks = [k for k, v in statuses.items() if v == 'ok']
    fails = [k for k, v in statuses.items() if v != 'ok']
    has_empty = c['part'] == 'hist' and any(s[0] == 'instantiate_top' and not s[1] for s in c['trace'])
    stats.case(repr(cj), n_rules >= 3 and len(outcomes) >= 6,
               [c['part'], 'all-ok' if not fails else ('all-fail' if not oks else 'MIXED')] + (['contains-empty-instantiation'] if has_empty else []) + (['memo-alias'] if c.get('alias') else [])
               + (['wrap-' + c['wrap']] if c['part'] == 'thunk' else []) + (['scale-theory'] if c.get('scale') else []),
               {'part': c['part'], 'expression': descr[:600], 'stacks': len(outcomes), 'machine_replays': machine_checked})
    if oks and fails:
        raise Violation('[%s] %s succeeds under %s but fails under %s (%s)' % (c['part'], descr[:800], oks, fails, outcomes[fails[0]][1:]), cj, 'all-or-none:' + fails[0])
    if oks:
        ref = outcomes[oks[0]]
        for k in oks[1:]:
            if outcomes[k][1:] != ref[1:]:
                raise Violation('[%s] %s: conclusions differ between %s and %s' % (c['part'], descr[:800], oks[0], k), cj, 'conclusions:' + k)


def shard(stats: Stats, shard_i, nshards, seed, tier):
    n = {'quick': 40, 'thorough': 1500}[tier]
    common.run_given(stats, seed, n, cases(), body)


def corpus():
    import glob, json, os

    for f in sorted(glob.glob(os.path.join(common.VERIF, 'corpus', PROP, '*.json'))):
        j = json.load(open(f, encoding='utf-8'))
        yield j.get('case', j)


def run(tier, t0):
    stats = Stats()
    for case in corpus():
        try:
            body(case_from_json(case), stats)
        except Violation as v:
            stats.violation(v)
    common.run_sharded(stats, 'checks.c08', 'shard', common.NPROC, tier)
    return common.finish(PROP, tier, stats, RULE, ASSUME, t0)


def replay(case):
    body(case_from_json(case), Stats())
