"""C12 — notation is transparent.

Parts
  eq   `==` on (sugared, fully expanded, partly expanded, near-miss) variants: reflexive,
       symmetric, transitive, coincides with structural equality of the reference expansions
  op   every operation f gives equal (up to expansion) results on a pattern p and on its
       expansion e:  evar_is_free, metavars, apply_esubst, apply_ssubst, instantiate,
       match_single (p as pattern / p as instance), Implies/App unwrap+extract,
       EVar/SVar/Symbol/Exists/Mu deconstruct, kore deconstruct_nary_application
"""
from __future__ import annotations

from hypothesis import strategies as st

from lib import common, gens, notations, refml as R
from lib.common import Stats, Violation

PROP = 'C12'
RULE = (
    'Hypothesis-generated patterns with nested (also partial) notation over the shipped and test-style notations; '
    'each compared with its independent full expansion. non-trivial = notation nested >= 2 deep and '
    '(op part) an operation whose result differs from its input or is a successful match/destructuring, '
    '(eq part) a pair whose two members are syntactically different objects; distinct by (part, op, inputs)'
)
ASSUME = [
    'expansion is computed by lib/refml.from_repo / gens.expand_sugared (independent of simplify/__eq__)',
    'metavars(): equality demanded only when no pending substitution sits inside a notation body (the repo tests accept the over-approximation otherwise, see DESIGN C12); superset always demanded',
]
CFG = gens.Cfg(ids=(0, 1, 2), nsyms=2)


def _pool():
    groups, by_label, defs = notations.registry()
    pool = groups['prop'] + groups['defn'] + groups['extra'] + groups['gen'] + [n for n in groups['kore'] if n.arity <= 3] + groups['wide']
    return pool, by_label, defs


def mixed(draw, t, defs):
    """Variant of sugared tree t in which some notation nodes are replaced by their expansion."""
    k = t[0]
    if k in ('n', 'inst'):
        if draw(st.booleans()):
            return gens.expand_sugared(t, defs)
        if k == 'n':
            return ('n', t[1], tuple(mixed(draw, a, defs) for a in t[2]))
        return ('inst', mixed(draw, t[1], defs), tuple((i, mixed(draw, a, defs)) for i, a in t[2]))
    if k in ('e', 's', 'y', 'm'): return t
    if k in ('i', 'a'): return (k, mixed(draw, t[1], defs), mixed(draw, t[2], defs))
    if k in ('E', 'M'): return (k, t[1], mixed(draw, t[2], defs))
    return (k, t[1], mixed(draw, t[2], defs), mixed(draw, t[3], defs))


def mutate(draw, t):
    """Near miss: replace one randomly chosen subtree by a fresh atom."""
    k = t[0]
    if k in ('e', 's', 'y', 'm') or draw(st.integers(0, 3)) == 0:
        return gens._atom(draw, CFG)
    if k == 'n':
        if not t[2]: return gens._atom(draw, CFG)
        j = draw(st.integers(0, len(t[2]) - 1))
        return ('n', t[1], tuple(mutate(draw, a) if i == j else a for i, a in enumerate(t[2])))
    if k == 'inst':
        return ('inst', mutate(draw, t[1]), t[2])
    if k in ('i', 'a'):
        if draw(st.booleans()): return (k, mutate(draw, t[1]), t[2])
        return (k, t[1], mutate(draw, t[2]))
    if k in ('E', 'M'): return (k, t[1], mutate(draw, t[2]))
    return (k, t[1], t[2], mutate(draw, t[3]))


OPS = ['evar_is_free', 'metavars', 'apply_esubst', 'apply_ssubst', 'instantiate', 'match_pat', 'match_inst',
       'unwrap', 'deconstruct', 'nary']


@st.composite
def cases(draw):
    pool, _, defs = _pool()
    p = gens.draw_sugared(draw, CFG, draw(st.integers(1, 3)), pool, True, defs)
    if draw(st.booleans()):
        # force nesting: a notation applied to (sugared) arguments
        n = draw(st.sampled_from(pool))
        p = ('n', n, (p,) * min(1, n.arity) + tuple(gens.draw_sugared(draw, CFG, draw(st.integers(0, 2)), pool, True, defs) for _ in range(max(0, n.arity - 1))))
    if draw(st.integers(0, 5)) == 0:
        a = mixed(draw, p, defs)
        b = mutate(draw, p) if draw(st.integers(0, 2)) == 0 else mixed(draw, p, defs)
        c = mixed(draw, b, defs)
        return {'part': 'eq', 'a': p, 'b': a, 'c': b, 'd': c}
    op = draw(st.sampled_from(OPS))
    c = {'part': 'op', 'op': op, 'p': p}
    if op in ('evar_is_free',):
        c['x'] = draw(st.sampled_from(CFG.ids))
    elif op in ('apply_esubst', 'apply_ssubst'):
        c['x'] = draw(st.sampled_from(CFG.ids))
        c['g'] = gens.draw_sugared(draw, CFG, draw(st.integers(0, 2)), pool, True, defs)
    elif op == 'instantiate':
        keys = sorted(draw(st.sets(st.sampled_from(CFG.ids), max_size=3)))
        c['delta'] = [(k, gens.draw_sugared(draw, CFG, draw(st.integers(0, 2)), pool, True, defs)) for k in keys]
    elif op == 'match_pat':
        # instance: an instantiation of p's expansion (so a match is possible), or unrelated
        if draw(st.integers(0, 3)):
            keys = sorted(R.metavars(gens.expand_sugared(p, defs)))
            c['delta'] = [(k, gens.draw_sugared(draw, CFG, draw(st.integers(0, 1)), pool, False, defs)) for k in keys]
        else:
            c['g'] = gens.draw_sugared(draw, CFG, draw(st.integers(0, 2)), pool, True, defs)
    elif op == 'match_inst':
        # pattern q: p with some subtrees abstracted into metavariables, or unrelated
        c['g'] = abstract(draw, p) if draw(st.integers(0, 3)) else gens.draw_sugared(draw, CFG, draw(st.integers(0, 2)), pool, True, defs)
    elif op in ('unwrap', 'deconstruct'):
        c['cls'] = draw(st.sampled_from(['Implies', 'App'] if op == 'unwrap' else ['EVar', 'SVar', 'Symbol', 'Exists', 'Mu']))
    return c


def abstract(draw, t, counter=None):
    """Replace random subtrees of (the expansion-shape of) t by metavariables 3,4,5.. -> a pattern that matches t."""
    k = t[0]
    if draw(st.integers(0, 3)) == 0:
        return R.MV(draw(st.sampled_from((3, 4))))
    if k in ('e', 's', 'y', 'm'): return t
    if k == 'n': return ('n', t[1], tuple(abstract(draw, a) for a in t[2]))
    if k == 'inst': return t
    if k in ('i', 'a'): return (k, abstract(draw, t[1]), abstract(draw, t[2]))
    if k in ('E', 'M'): return (k, t[1], abstract(draw, t[2]))
    return t


def subst_in_inst_body(t, inside=False):
    k = t[0]
    if k in ('es', 'ss'):
        return inside or subst_in_inst_body(t[2], inside) or subst_in_inst_body(t[3], inside)
    if k in ('e', 's', 'y', 'm'): return False
    if k == 'n': return any(subst_in_inst_body(a, inside) for a in t[2])
    if k == 'inst':
        return subst_in_inst_body(t[1], True) or any(subst_in_inst_body(a, inside) for _, a in t[2])
    if k in ('i', 'a'): return subst_in_inst_body(t[1], inside) or subst_in_inst_body(t[2], inside)
    return subst_in_inst_body(t[2], inside)


def case_json(c):
    out = {}
    for k, v in c.items():
        if k in ('p', 'g', 'a', 'b', 'c', 'd'): out[k] = gens.sugared_to_json(v)
        elif k == 'delta': out[k] = [[i, gens.sugared_to_json(a)] for i, a in v]
        else: out[k] = v
    return out


def case_from_json(j):
    _, by_label, _ = _pool()
    _, by_label, _ = notations.registry()
    out = {}
    for k, v in j.items():
        if k in ('p', 'g', 'a', 'b', 'c', 'd'): out[k] = gens.sugared_from_json(v, by_label)
        elif k == 'delta': out[k] = [(i, gens.sugared_from_json(a, by_label)) for i, a in v]
        else: out[k] = v
    return out


def _fail(c, msg, key):
    raise Violation('[%s] %s' % (c.get('op', c['part']), msg), case_json(c), key)


def norm(v):
    """Normalise an operation result for comparison: patterns -> expansion."""
    import proof_generation.pattern as P

    if isinstance(v, P.Pattern): return ('pat', R.from_repo(v))
    if isinstance(v, dict): return ('dict', tuple(sorted((k, norm(x)) for k, x in v.items())))
    if isinstance(v, (tuple, list)): return ('tup', tuple(norm(x) for x in v))
    if isinstance(v, (set, frozenset)): return ('set', tuple(sorted(v)))
    return ('val', v)


def attempt(f):
    try:
        return ('ok', norm(f()))
    except (AssertionError, NotImplementedError, KeyError, TypeError, AttributeError, ValueError) as e:
        return ('raise', type(e).__name__)


def body(c, stats: Stats):
    import proof_generation.pattern as P
    from proof_generation.proofs import kore as K

    _, _, defs = _pool()
    if c['part'] == 'eq':
        objs = {k: gens.build_repo(c[k]) for k in 'abcd'}
        exps = {k: gens.expand_sugared(c[k], defs) for k in 'abcd'}
        names = 'abcd'
        nd = gens.notation_depth(c['a'])
        for i in names:
            if not (objs[i] == objs[i]):
                _fail(c, '== is not reflexive on %s' % gens.show_sugared(c[i]), 'eq-refl')
        # objects derived from one another by instantiate share notation bodies (object identity): identity and
        # non-identity instantiations must still compare by expansion, in both orders
        for i in 'ab':
            for k in sorted(R.metavars(exps[i]))[:2] + [7]:
                for val_t, val_e in ((R.MV(k), R.MV(k)), (R.E(k % 3), R.E(k % 3))):
                    der = objs[i].instantiate({k: R.to_repo(val_t)})
                    want = R.instantiate(exps[i], {k: val_e}) == exps[i]
                    if (objs[i] == der) != want or (der == objs[i]) != want:
                        _fail(c, '%s compared with itself instantiated by {%d: %s}: implementation says %s / reversed %s, expansions are %s'
                              % (gens.show_sugared(c[i]), k, R.show(val_e), objs[i] == der, der == objs[i], 'equal' if want else 'different'), 'eq-instantiated')
        for i in names:
            for j in names:
                if i >= j: continue
                want = exps[i] == exps[j]
                got1 = objs[i] == objs[j]
                got2 = objs[j] == objs[i]
                stats.case(('eq', exps[i], gens.show_sugared(c[i]), gens.show_sugared(c[j])), nd >= 2 and c[i] != c[j],
                           ['eq', 'equal-pair' if want else 'unequal-pair'],
                           {'op': '==', 'left': gens.show_sugared(c[i]), 'right': gens.show_sugared(c[j]), 'expected': want})
                if got1 != want or got2 != want:
                    _fail(c, '%s == %s: implementation says %s / reversed %s, expansions are %s'
                          % (gens.show_sugared(c[i]), gens.show_sugared(c[j]), got1, got2, 'equal' if want else 'different'), 'eq-coincide')
                if (objs[i] != objs[j]) == got1:
                    _fail(c, '!= is not the negation of == on %s, %s' % (gens.show_sugared(c[i]), gens.show_sugared(c[j])), 'eq-ne')
        return
    op = c['op']
    p = gens.build_repo(c['p'])
    ep = gens.expand_sugared(c['p'], defs)
    e = R.to_repo(ep)
    nd = gens.notation_depth(c['p'])
    classes = ['op', 'op-' + op, 'nest>=2' if nd >= 2 else 'nest<2']
    sample = {'op': op, 'pattern': gens.show_sugared(c['p'])}
    changed = False
    if op == 'evar_is_free':
        r1 = attempt(lambda: p.evar_is_free(c['x'])); r2 = attempt(lambda: e.evar_is_free(c['x']))
        changed = True
        sample['var'] = c['x']
    elif op == 'metavars':
        r1 = attempt(lambda: p.metavars()); r2 = attempt(lambda: e.metavars())
        changed = True
        if r1[0] == 'ok' and r2[0] == 'ok' and subst_in_inst_body(c['p']):
            classes.append('metavars-superset-only')
            if not set(r2[1][1]) <= set(r1[1][1]):
                _fail(c, 'metavars() of %s = %s misses metavariables of the expansion %s' % (gens.show_sugared(c['p']), r1[1][1], r2[1][1]), 'op-metavars')
            r1 = r2
        # the computed set must also cover what really occurs in the expansion
        if r1[0] == 'ok' and not R.metavars(ep) <= set(r1[1][1]):
            _fail(c, 'metavars() = %s misses %s' % (r1[1][1], sorted(R.metavars(ep))), 'op-metavars')
    elif op in ('apply_esubst', 'apply_ssubst'):
        g = gens.build_repo(c['g'])
        r1 = attempt(lambda: getattr(p, op)(c['x'], g)); r2 = attempt(lambda: getattr(e, op)(c['x'], g))
        changed = r2[0] == 'ok' and r2[1] != ('pat', ep)
        sample.update(var=c['x'], plug=gens.show_sugared(c['g']))
    elif op == 'instantiate':
        if not gens.admissible_delta(ep, {k: gens.expand_sugared(v, defs) for k, v in c['delta']}):
            stats.excluded['instantiate-inadmissible-delta'] += 1
            return
        d = {k: gens.build_repo(v) for k, v in c['delta']}
        r1 = attempt(lambda: p.instantiate(d)); r2 = attempt(lambda: e.instantiate(d))
        changed = r2[0] == 'ok' and r2[1] != ('pat', ep)
        sample['delta'] = {k: gens.show_sugared(v) for k, v in c['delta']}
    elif op == 'match_pat':
        if 'delta' in c:
            inst_exp = R.instantiate(ep, {k: gens.expand_sugared(v, defs) for k, v in c['delta']})
            inst = R.to_repo(inst_exp)
        else:
            inst = gens.build_repo(c['g'])
        r1 = attempt(lambda: P.match_single(p, inst)); r2 = attempt(lambda: P.match_single(e, inst))
        changed = r2 == ('ok', r2[1]) and r2[1][0] == 'dict'
        classes.append('match-success' if changed else 'match-none')
    elif op == 'match_inst':
        q = gens.build_repo(c['g'])
        r1 = attempt(lambda: P.match_single(q, p)); r2 = attempt(lambda: P.match_single(q, e))
        changed = r2[0] == 'ok' and r2[1][0] == 'dict'
        classes.append('match-success' if changed else 'match-none')
        sample['matched_against'] = gens.show_sugared(c['g'])
    elif op == 'unwrap':
        cls = getattr(P, c['cls'])
        r1 = attempt(lambda: cls.unwrap(p)); r2 = attempt(lambda: cls.unwrap(e))
        x1 = attempt(lambda: cls.extract(p)); x2 = attempt(lambda: cls.extract(e))
        if x1 != x2:
            _fail(c, '%s.extract differs: on notation %s, on expansion %s' % (c['cls'], x1, x2), 'op-extract')
        changed = r2[0] == 'ok' and r2[1][0] == 'tup'
        classes.append('destructure-success' if changed else 'destructure-none')
    elif op == 'deconstruct':
        cls = getattr(P, c['cls'])
        r1 = attempt(lambda: cls.deconstruct(p)); r2 = attempt(lambda: cls.deconstruct(e))
        changed = r2[0] == 'ok' and r2[1] != ('val', None)
        classes.append('destructure-success' if changed else 'destructure-none')
    elif op == 'nary':
        r1 = attempt(lambda: K.deconstruct_nary_application(p)); r2 = attempt(lambda: K.deconstruct_nary_application(e))
        changed = r2[0] == 'ok' and len(r2[1][1][1][1]) > 0
    else:
        raise common.HarnessError(op)
    stats.case(('op', op, gens.show_sugared(c['p']), repr(case_json(c))), nd >= 2 and changed, classes, sample)
    if r1 != r2:
        _fail(c, '%s on notation form %s gives %s but on its expansion %s gives %s'
              % (op, gens.show_sugared(c['p']), _short(r1), R.show(ep), _short(r2)), 'op-' + op)


def _short(r):
    s = repr(r)
    return s if len(s) < 400 else s[:400] + '...'


def shard(stats: Stats, shard_i, nshards, seed, tier):
    n = {'quick': 1500, 'thorough': 50000}[tier]
    common.run_given(stats, seed, n, cases(), body)


def corpus():
    import glob, json, os

    for f in sorted(glob.glob(os.path.join(common.VERIF, 'corpus', PROP, '*.json'))):
        j = json.load(open(f, encoding='utf-8'))
        yield j.get('case', j)


def run(tier, t0):
    stats = Stats()
    for case in corpus():
        try:
            body(case_from_json(case), stats)
        except Violation as v:
            stats.violation(v)
    common.run_sharded(stats, 'checks.c12', 'shard', common.NPROC, tier)
    return common.finish(PROP, tier, stats, RULE, ASSUME, t0)


def replay(case):
    body(case_from_json(case), Stats())
