"""C13 — matching is sound and complete.

Parts
  sound     arbitrary (pattern, instance, seed): a returned substitution instantiates the pattern
            to the instance and contains the seed unchanged
  complete  substitution-free pattern p, map sigma, instance := p.sigma (expanded / as a notation
            node / partly expanded): match succeeds and agrees with sigma on metavars(p);
            agreeing seeds are kept, disagreeing seeds give None
  eqs       match([...]) on lists built from one global sigma (also lists whose only solution is {})
  notation  N.matches(N(*a)) / assert_matches round trip for every shipped notation, arity 0 included
"""
from __future__ import annotations

from hypothesis import strategies as st

from lib import common, gens, notations, refml as R
from lib.common import Stats, Violation
from checks.c12 import mixed

PROP = 'C13'
RULE = (
    'Hypothesis-generated (pattern, instance, seed) triples, equation lists and notation applications; '
    'non-trivial = successful match binding >= 2 metavariables one of which is repeated in the pattern, or a '
    'successful match with the empty substitution, or a notation of arity >= 2 round-tripped; distinct by inputs'
)
ASSUME = [
    'instances for completeness are built with the reference instantiate (lib/refml.py)',
    'completeness is demanded only for substitution-free patterns (the property says so; match_single has no ESubst/SSubst case)',
]
CFG = gens.Cfg(ids=(0, 1, 2), nsyms=2)
CFG_NS = gens.Cfg(ids=(0, 1, 2), nsyms=2, subst=False, meta_weight=6)


def _pool():
    groups, by_label, defs = notations.registry()
    pool = groups['prop'] + groups['defn'] + groups['extra'] + groups['gen'] + [n for n in groups['kore'] if n.arity <= 3] + groups['wide']
    return pool, by_label, defs


def _all_nots():
    groups, by_label, defs = notations.registry()
    return [n for g in groups.values() for n in g], defs


@st.composite
def cases(draw):
    c = draw(_cases())
    c['share'] = draw(st.booleans())
    return c


@st.composite
def _cases(draw):
    pool, _, defs = _pool()
    part = draw(st.sampled_from(['sound', 'complete', 'complete', 'eqs', 'notation']))
    if part == 'sound':
        p = gens.draw_sugared(draw, CFG, draw(st.integers(0, 3)), pool, True, defs)
        inst = gens.draw_sugared(draw, CFG, draw(st.integers(0, 3)), pool, True, defs) if draw(st.integers(0, 2)) == 0 else mixed(draw, perturb(draw, p), defs)
        seed = [(k, gens.draw_sugared(draw, CFG, draw(st.integers(0, 1)), pool, False, defs)) for k in sorted(draw(st.sets(st.sampled_from(CFG.ids), max_size=2)))]
        return {'part': part, 'p': p, 'inst': inst, 'seed': seed}
    if part == 'complete':
        p = gens.draw_sugared(draw, CFG_NS, draw(st.integers(0, 3)), pool, True, defs)
        mvs = sorted(R.metavars(gens.expand_sugared(p, defs)))
        sigma = [(k, gens.draw_sugared(draw, CFG, draw(st.integers(0, 2)), pool, True, defs)) for k in mvs]
        form = draw(st.sampled_from(['expanded', 'node', 'mixed']))
        seed_mode = draw(st.sampled_from(['none', 'none', 'agree', 'disagree', 'extra']))
        seed = []
        if seed_mode == 'agree' and sigma:
            seed = [sigma[draw(st.integers(0, len(sigma) - 1))]]
        elif seed_mode == 'disagree' and sigma:
            k, v = sigma[draw(st.integers(0, len(sigma) - 1))]
            seed = [(k, ('i', v, v))]
        elif seed_mode == 'extra':
            seed = [(7, gens.draw_sugared(draw, CFG, 1, pool, False, defs))]
        return {'part': part, 'p': p, 'sigma': sigma, 'form': form, 'seed_mode': seed_mode, 'seed': seed, 'mix': draw(st.integers(0, 2 ** 30))}
    if part == 'eqs':
        n = draw(st.integers(0, 4))
        pats = [gens.draw_sugared(draw, CFG_NS, draw(st.integers(0, 2)), pool, True, defs) for _ in range(n)]
        if draw(st.integers(0, 3)) == 0:
            # only solution is the empty substitution: metavariable-free patterns
            ccfg = gens.Cfg(ids=(0, 1, 2), nsyms=2, meta=False, subst=False)
            pats = [gens.draw_sugared(draw, ccfg, draw(st.integers(0, 2)), pool, False, defs) for _ in range(max(n, 1))]
        mvs = sorted(set().union(*[R.metavars(gens.expand_sugared(p, defs)) for p in pats])) if pats else []
        sigma = [(k, gens.draw_sugared(draw, CFG, draw(st.integers(0, 1)), pool, True, defs)) for k in mvs]
        breakit = draw(st.integers(0, 4)) == 0 and bool(pats)
        return {'part': part, 'pats': pats, 'sigma': sigma, 'break': breakit, 'which': draw(st.integers(0, 10))}
    nots, _ = _all_nots()
    n = draw(st.sampled_from(nots))
    args = [gens.draw_sugared(draw, CFG, draw(st.integers(0, 2)), pool, True, defs) for _ in range(n.arity)]
    return {'part': part, 'n': n, 'args': args, 'form': draw(st.sampled_from(['node', 'expanded']))}


def perturb(draw, t):
    """An instance candidate derived from pattern t: metavariables replaced by small patterns,
    occasionally inconsistent (so both outcomes occur)."""
    k = t[0]
    if k == 'm':
        return gens._atom(draw, CFG) if draw(st.integers(0, 4)) == 0 else ('a', R.Y(0), R.E(t[1] % 3))
    if k in ('e', 's', 'y'): return t
    # near misses that keep the shape: the other binder kind with the same id, the other binary connective
    if k in ('E', 'M') and draw(st.integers(0, 3)) == 0: return ('M' if k == 'E' else 'E', t[1], perturb(draw, t[2]))
    if k in ('i', 'a') and draw(st.integers(0, 7)) == 0: return ('a' if k == 'i' else 'i', perturb(draw, t[1]), perturb(draw, t[2]))
    if k == 'n': return ('n', t[1], tuple(perturb(draw, a) for a in t[2]))
    if k == 'inst': return ('inst', perturb(draw, t[1]), tuple((i, perturb(draw, a)) for i, a in t[2]))
    if k in ('i', 'a'): return (k, perturb(draw, t[1]), perturb(draw, t[2]))
    if k in ('E', 'M'): return (k, t[1], perturb(draw, t[2]))
    return (k, t[1], perturb(draw, t[2]), perturb(draw, t[3]))


def case_json(c):
    out = {}
    for k, v in c.items():
        if k in ('p', 'inst'): out[k] = gens.sugared_to_json(v)
        elif k in ('seed', 'sigma'): out[k] = [[i, gens.sugared_to_json(a)] for i, a in v]
        elif k in ('pats', 'args'): out[k] = [gens.sugared_to_json(a) for a in v]
        elif k == 'n': out[k] = notations.label_of(v)
        else: out[k] = v
    return out


def case_from_json(j):
    _, by_label, _ = notations.registry()
    f = lambda a: gens.sugared_from_json(a, by_label)
    out = {}
    for k, v in j.items():
        if k in ('p', 'inst'): out[k] = f(v)
        elif k in ('seed', 'sigma'): out[k] = [(i, f(a)) for i, a in v]
        elif k in ('pats', 'args'): out[k] = [f(a) for a in v]
        elif k == 'n': out[k] = by_label[v]
        else: out[k] = v
    return out


def _fail(c, msg, key):
    raise Violation('[%s] %s' % (c['part'], msg), case_json(c), key)


def repeated_metavar(ep):
    seen = {}

    def go(t):
        k = t[0]
        if k == 'm': seen[t[1]] = seen.get(t[1], 0) + 1
        elif k in ('i', 'a'): go(t[1]); go(t[2])
        elif k in ('E', 'M'): go(t[2])
        elif k in ('es', 'ss'): go(t[2]); go(t[3])

    go(ep)
    return any(v > 1 for v in seen.values())


def check_sound(c, p_t, inst_obj, inst_exp, seed, res, defs, what):
    """res is the dict returned by the implementation (not None)."""
    ep = gens.expand_sugared(p_t, defs)
    eres = {k: R.from_repo(v) for k, v in res.items()}
    back = R.instantiate(ep, eres)
    if back != inst_exp:
        _fail(c, '%s returned %s but instantiating the pattern %s with it gives %s, not the instance %s'
              % (what, {k: R.show(v) for k, v in eres.items()}, R.show(ep), R.show(back), R.show(inst_exp)), 'sound-instance')
    for k, v in seed.items():
        if k not in res or R.from_repo(res[k]) != R.from_repo(v):
            _fail(c, '%s did not respect the pre-supplied binding %d := %s (result %s)'
                  % (what, k, R.show(R.from_repo(v)), {kk: R.show(vv) for kk, vv in eres.items()}), 'sound-seed')


def body(c, stats: Stats):
    # identity: in a share of the cases the unconstrained phi0..phi2 of pattern, instance and seed are the library's own shared objects
    with gens.shared_metavars(c.get('share')):
        return _body(c, stats)


def _body(c, stats: Stats):
    import proof_generation.pattern as P

    _, _, defs = _pool()
    part = c['part']
    if part == 'sound':
        if not (gens.sugared_well_formed(c['p'], defs) and gens.sugared_well_formed(c['inst'], defs)):
            # a perturbed instance can carry a pending substitution over a non-schematic pattern (not a pattern of the documented
            # syntax: the toolkit resolves it, the reference keeps it): outside the domain
            stats.excluded['sound-ill-formed-perturbed-instance'] += 1
            return
        p = gens.build_repo(c['p']); inst = gens.build_repo(c['inst'])
        seed = {k: gens.build_repo(v) for k, v in c['seed']}
        res = P.match_single(p, inst, dict(seed))
        ep = gens.expand_sugared(c['p'], defs)
        ok = res is not None
        nt = ok and ((len(R.metavars(ep)) >= 2 and repeated_metavar(ep)) or (len(res) == 0 and R.size(ep) > 1))
        stats.case(('sound', ep, gens.show_sugared(c['inst']), repr(c['seed'])), nt,
                   ['sound', 'match-success' if ok else 'match-none', 'seeded' if seed else 'unseeded'],
                   {'op': 'match_single', 'pattern': gens.show_sugared(c['p']), 'instance': gens.show_sugared(c['inst']),
                    'seed': {k: gens.show_sugared(v) for k, v in c['seed']}, 'matched': ok})
        if ok:
            check_sound(c, c['p'], inst, gens.expand_sugared(c['inst'], defs), seed, res, defs, 'match_single')
        return
    if part == 'complete':
        p = gens.build_repo(c['p'])
        ep = gens.expand_sugared(c['p'], defs)
        esig = {k: gens.expand_sugared(v, defs) for k, v in c['sigma']}
        inst_exp = R.instantiate(ep, esig)
        if c['form'] == 'expanded':
            inst = R.to_repo(inst_exp)
        elif c['form'] == 'node':
            inst = gens.build_repo(('inst', c['p'], tuple(c['sigma'])))
        else:
            # partly expanded: notation kept in the substituted values only
            inst = R.to_repo(ep).instantiate({k: gens.build_repo(v) for k, v in c['sigma']})
        if R.from_repo(inst) != inst_exp:
            raise common.HarnessError('generator: instance form %s does not expand to p.sigma' % c['form'])
        seed = {k: gens.build_repo(v) for k, v in c['seed']}
        res = P.match_single(p, inst, dict(seed))
        mode = c['seed_mode'] if c['seed'] else 'none'
        nt = res is not None and ((len(esig) >= 2 and repeated_metavar(ep)) or (len(res) == 0 and R.size(ep) > 1))
        stats.case(('complete', ep, tuple(sorted(esig.items())), c['form'], mode), nt,
                   ['complete', 'form-' + c['form'], 'seed-' + mode, 'binds-%d' % min(len(esig), 3)],
                   {'op': 'match_single(complete)', 'pattern': gens.show_sugared(c['p']), 'sigma': {k: gens.show_sugared(v) for k, v in c['sigma']}, 'instance_form': c['form'], 'seed': mode})
        if mode == 'disagree':
            k0, v0 = c['seed'][0]
            if gens.expand_sugared(v0, defs) != esig[k0]:
                if res is not None:
                    check_sound(c, c['p'], inst, inst_exp, seed, res, defs, 'match_single (conflicting seed)')
                return
        if res is None:
            _fail(c, 'match_single(%s, %s) is None although the instance is the pattern instantiated with %s'
                  % (gens.show_sugared(c['p']), R.show(inst_exp), {k: R.show(v) for k, v in esig.items()}), 'complete-none')
        for k, v in esig.items():
            if k not in res or R.from_repo(res[k]) != v:
                _fail(c, 'match_single result %s disagrees with the constructing substitution on %d'
                      % ({kk: R.show(R.from_repo(vv)) for kk, vv in res.items()}, k), 'complete-agree')
        check_sound(c, c['p'], inst, inst_exp, seed, res, defs, 'match_single')
        return
    if part == 'eqs':
        esig = {k: gens.expand_sugared(v, defs) for k, v in c['sigma']}
        eqs = []
        exps = []
        for p_t in c['pats']:
            ep = gens.expand_sugared(p_t, defs)
            eqs.append((gens.build_repo(p_t), R.to_repo(R.instantiate(ep, esig))))
            exps.append(ep)
        broken = False
        if c['break'] and eqs:
            i = c['which'] % len(eqs)
            wrong = R.I(R.instantiate(exps[i], esig), R.Y('zz'))
            eqs[i] = (eqs[i][0], R.to_repo(wrong))
            broken = True
        res = P.match(list(eqs))
        empty_solution = not esig
        nt = res is not None and ((len(esig) >= 2) or (empty_solution and len(eqs) >= 1))
        stats.case(('eqs', tuple(exps), tuple(sorted(esig.items())), broken), nt,
                   ['eqs', 'eqs-len-%d' % min(len(eqs), 4), 'empty-solution' if empty_solution else 'nonempty-solution', 'broken' if broken else 'solvable'],
                   {'op': 'match', 'equations': [[gens.show_sugared(p_t), R.show(R.from_repo(i))] for p_t, (_, i) in zip(c['pats'], eqs)], 'expected': 'None' if broken else {k: R.show(v) for k, v in esig.items()}})
        if broken:
            if res is not None:
                # a solution may exist only if the pattern is a bare metavariable etc.; verify soundness instead
                for (p_obj, i_obj), p_t in zip(eqs, c['pats']):
                    check_sound(c, p_t, i_obj, R.from_repo(i_obj), {}, res, defs, 'match (broken list)')
            return
        if res is None:
            _fail(c, 'match(%s) is None although %s solves every equation'
                  % ([[gens.show_sugared(p_t), R.show(R.from_repo(i))] for p_t, (_, i) in zip(c['pats'], eqs)], {k: R.show(v) for k, v in esig.items()}), 'eqs-none')
        for k, v in esig.items():
            if k not in res or R.from_repo(res[k]) != v:
                _fail(c, 'match result disagrees with the solution on %d' % k, 'eqs-agree')
        for (p_obj, i_obj), p_t in zip(eqs, c['pats']):
            check_sound(c, p_t, i_obj, R.from_repo(i_obj), {}, res, defs, 'match')
        return
    if part == 'notation':
        n = c['n']
        args = [gens.build_repo(a) for a in c['args']]
        app = n(*args)
        app_exp = R.from_repo(app)
        target = app if c['form'] == 'node' else R.to_repo(app_exp)
        r = n.matches(target)
        stats.case(('notation', notations.label_of(n), tuple(gens.show_sugared(a) for a in c['args']), c['form']), n.arity >= 2 or n.arity == 0,
                   ['notation', 'arity-%d' % min(n.arity, 4), 'form-' + c['form']],
                   {'op': 'Notation.matches', 'notation': notations.label_of(n), 'args': [gens.show_sugared(a) for a in c['args']], 'form': c['form']})
        if r is None:
            _fail(c, '%s.matches(%s(%s)) is None' % (n.label, n.label, ', '.join(gens.show_sugared(a) for a in c['args'])), 'notation-none')
        if not isinstance(r, tuple) or len(r) != n.arity:
            _fail(c, '%s.matches returned %r (arity %d)' % (n.label, r, n.arity), 'notation-shape')
        rebuilt = n(*r)
        if R.from_repo(rebuilt) != app_exp or not (rebuilt == app):
            _fail(c, 'rebuilding %s from the deconstructed arguments gives %s, expected %s' % (n.label, R.show(R.from_repo(rebuilt)), R.show(app_exp)), 'notation-rebuild')
        try:
            r2 = n.assert_matches(target)
        except AssertionError as e:
            _fail(c, '%s.assert_matches raised on an application of the notation itself: %s' % (n.label, str(e)[:200]), 'notation-assert')
        if tuple(R.from_repo(x) for x in r2) != tuple(R.from_repo(x) for x in r):
            _fail(c, 'assert_matches and matches disagree', 'notation-assert-diff')
        return
    raise common.HarnessError(part)


def shard(stats: Stats, shard_i, nshards, seed, tier):
    n = {'quick': 5000, 'thorough': 60000}[tier]   # quick raised from 2000: seeded C13-e was reported by 1 of 16 shards at VERIF_SEED=2
    common.run_given(stats, seed, n, cases(), body)


def corpus():
    import glob, json, os

    for f in sorted(glob.glob(os.path.join(common.VERIF, 'corpus', PROP, '*.json'))):
        j = json.load(open(f, encoding='utf-8'))
        yield j.get('case', j)


def run(tier, t0):
    stats = Stats()
    for case in corpus():
        try:
            body(case_from_json(case), stats)
        except Violation as v:
            stats.violation(v)
    common.run_sharded(stats, 'checks.c13', 'shard', common.NPROC, tier)
    return common.finish(PROP, tier, stats, RULE, ASSUME, t0)


def replay(case):
    body(case_from_json(case), Stats())
