"""C04 — the generator-side verifier state is a faithful simulation of the real machine.

Hypothesis rule-based state machine over a SerializingInterpreter with in-memory sinks (steps and operand choice in
lib/histories.py).  After every step the bytes emitted since the previous step are executed by the reference machine
(lib/refmachine.py) and its stack / memory / claims are compared with the tracker's; every Load is checked to fetch
the term the generator asked for.
"""
from __future__ import annotations

import io

from hypothesis import strategies as st
from hypothesis.stateful import RuleBasedStateMachine, invariant, precondition, rule

from lib import common, gens, histories as H, refmachine as M, refml as R
from lib.common import Stats, Violation

PROP = 'C04'
RULE = (
    'Hypothesis stateful histories of interpreter calls (atoms, constrained metavariables, implies/app/exists/mu, esubst/ssubst, '
    'prop1-3, quantifier, modus ponens via REFL/WEAKEN gadgets, generalization, instantiate / instantiate_pattern with 0-3 keys '
    'in any order, save / load of any tracked memory term / pop, publishes in the three phases, phase changes); invariant after '
    'every step. non-trivial = history with >= 1 load after >= 2 saves, >= 1 instantiate with >= 2 keys and >= 1 phase change; '
    'distinct by the emitted bytes'
)
ASSUME = [
    'the documented machine is lib/refmachine.py (DESIGN 2.1)',
    'simulation relation: machine stack = tracker stack with published residues erased (DESIGN 2.2); histories never consume a residue',
    'claims are published in the reverse of the constructor order (what execute_claims_phase does)',
    'instantiations are admissible and capture-free, mu bodies positive (preconditions of the toolkit, DESIGN 2.3)',
]
CUR = {'stats': None, 'steps': 0}


class Sink(io.BytesIO):
    def close(self):  # IOInterpreter closes its sinks at phase changes; keep the bytes readable
        pass


class Session:
    """A serializing interpreter + runner + reference machine, steppable; shared by the Hypothesis machine and replay."""

    def __init__(self, axioms, specs):
        from proof_generation.claim import Claim
        from proof_generation.interpreter import ExecutionPhase
        from proof_generation.serializing_interpreter import SerializingInterpreter

        self.setup = H.setup_to_json(axioms, specs)
        self.sinks = [Sink(), Sink(), Sink()]
        cps = H.Runner.claim_patterns(axioms, specs)
        self.it = SerializingInterpreter(ExecutionPhase.Gamma, self.sinks[0], [Claim(p) for p in cps], self.sinks[1], self.sinks[2])
        self.r = H.Runner(self.it, axioms, specs)
        self.m = M.Machine()
        self.mphase = 0
        self.consumed = [0, 0, 0]
        self.bij = R.SymbolBijection()
        self.trace = []
        self.dead = None

    def case(self):
        return {'setup': self.setup, 'trace': self.trace}

    def step(self, step):
        """apply + check; returns False when the step was not applicable"""
        self.r.last_load = None
        if self.dead:
            return False
        try:
            self.r.apply(step)
        except H.Skip:
            return False
        except Exception as e:  # the interpreter does not accept this call sequence: outside C04's domain
            self.dead = '%s at step %s' % (type(e).__name__, step[0])
            if step[0] == 'misuse':
                CUR['stats'].classes['misuse-refused'] += 1
            return False
        self.trace.append(step)
        if step[0] == 'misuse':
            # the tracker accepted a call that breaks the stack discipline: its state and the bytes must still agree with the
            # machine, which they cannot; whatever check() finds is reported, and the history ends here
            CUR['stats'].classes['misuse-accepted'] += 1
            try:
                self.check(step)
            except Violation as v:
                raise Violation('the tracking interpreter accepted the invalid call %r instead of refusing it; consequence: %s' % (step[1], v.msg), self.case(), 'misuse-accepted:' + step[1])
            self.dead = 'misuse accepted without observable divergence'
            return True
        self.check(step)
        return True

    def check(self, step):
        it, m, r = self.it, self.m, self.r
        # bytes of a phase that ended with this step, then the phase change, then the new phase's bytes
        while True:
            new = self.sinks[self.mphase].getvalue()[self.consumed[self.mphase]:]
            self.consumed[self.mphase] += len(new)
            try:
                m.run(new, self.mphase)
            except M.Reject as e:
                raise Violation('the documented machine rejects the bytes emitted by step %s (%s) in phase %d; fragment %s'
                                % (step, e, self.mphase, new.hex()), self.case(), 'machine-rejects')
            if self.mphase < r.phase:
                m.next_phase(); self.mphase += 1
            else:
                break
        show = lambda l: [(k, R.show(p)) for k, p in l]
        if len(it.stack) != len(r.stack):
            raise Violation('after step %s the tracker stack has %d entries where the API discipline gives %d: %s'
                            % (step, len(it.stack), len(r.stack), [str(x) for x in it.stack]), self.case(), 'stack-len')
        tr = [H.expand_term(t) for t, (_, res) in zip(it.stack, r.stack) if not res]
        if len(tr) != len(m.stack) or not all(k1 == k2 and self.bij.unify(p1, p2) for (k1, p1), (k2, p2) in zip(tr, m.stack)):
            raise Violation('stack differs after step %s: tracker %s, machine %s' % (step, show(tr), show(m.stack)), self.case(), 'stack')
        tm = [H.expand_term(t) for t in it.memory]
        if len(tm) != len(m.memory) or not all(k1 == k2 and self.bij.unify(p1, p2) for (k1, p1), (k2, p2) in zip(tm, m.memory)):
            raise Violation('memory differs after step %s: tracker %s, machine %s' % (step, show(tm), show(m.memory)), self.case(), 'memory')
        if r.phase == 2:
            tc = [R.from_repo(c.pattern) for c in reversed(it.claims)]
            if len(tc) != len(m.claims) or not all(self.bij.unify(a, b) for a, b in zip(tc, m.claims)):
                raise Violation('claims differ after step %s: tracker (next first) %s, machine stack %s'
                                % (step, [R.show(p) for p in reversed(tc)], [R.show(p) for p in m.claims]), self.case(), 'claims')
        if r.last_load is not None:
            want = H.expand_term(r.last_load)
            if not m.loads or m.loads[-1][1][0] != want[0] or not self.bij.unify(want[1], m.loads[-1][1][1]):
                raise Violation('step %s: a Load fetched %s where the generator intended %s'
                                % (step, m.loads and R.show(m.loads[-1][1][1]), R.show(want[1])), self.case(), 'load')


class Hist(RuleBasedStateMachine):
    def __init__(self):
        super().__init__()
        self.s = None

    @precondition(lambda self: self.s is None)
    @rule(data=st.data())
    def init(self, data):
        axioms, specs = H.draw_setup(data.draw)
        self.s = Session(axioms, specs)

    @precondition(lambda self: self.s is not None)
    @rule(data=st.data())
    def step(self, data):
        step = H.draw_step(data.draw, self.s.r, misuse=True)
        ok = self.s.step(step)
        CUR['steps'] += 1 if ok else 0
        if not ok:
            CUR['stats'].excluded['step-not-applicable'] += 1

    def teardown(self):
        if self.s is None:
            return
        s = self.s
        c = s.r.counters
        blob = b'|'.join(x.getvalue() for x in s.sinks)
        nt = c['loads_after_2_saves'] >= 1 and c['inst2'] >= 1 and c['phase_changes'] >= 1
        cls = ['history', 'phases-%d' % c['phase_changes']] + ['op-' + o for o in s.r.ops]
        if s.r.proved_claims: cls.append('claims-proved')
        if s.dead:
            cls.append('interpreter-refused')
            CUR['stats'].excluded['history-ended-by-interpreter-exception:' + s.dead] += 1
        CUR['stats'].case(blob, nt, cls, {'setup': s.setup, 'trace': s.trace[:40], 'proof_bytes': s.sinks[2].getvalue().hex()[:200]})


def shard(stats: Stats, shard_i, nshards, seed, tier):
    n, steps = {'quick': (250, 40), 'thorough': (4000, 80)}[tier]
    CUR['stats'] = stats
    CUR['steps'] = 0
    common.run_machine(stats, seed, n, steps, Hist)
    stats.classes['steps-checked'] += CUR['steps']


def replay(case):
    axioms, specs = H.setup_from_json(case['setup'])
    s = Session(axioms, specs)
    for step in case['trace']:
        s.step(step)


def run(tier, t0):
    import glob, json, os

    stats = Stats()
    for f in sorted(glob.glob(os.path.join(common.VERIF, 'corpus', PROP, '*.json'))):
        j = json.load(open(f, encoding='utf-8'))
        try:
            replay(j.get('case', j))
            stats.case(f, False, ['corpus'])
        except Violation as v:
            stats.violation(v)
    common.run_sharded(stats, 'checks.c04', 'shard', common.NPROC, tier)
    return common.finish(PROP, tier, stats, RULE, ASSUME, t0)
