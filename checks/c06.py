"""C06 — freshness and positivity judgements are sound for every instantiation.

Parts
  rust    judgements of the checker (harness judge mode: e_fresh, s_fresh, positive, negative for ids 0..3 of a
          pattern built by an instruction stream) checked on admissible concrete instances
  py      Pattern.evar_is_free of the toolkit (every class, with notation) checked the same way, plus
          notation invariance: same answer on a pattern and on its expansion
"""
from __future__ import annotations

from hypothesis import strategies as st

from lib import common, gens, notations, refmachine as M, refml as R, rustharness
from lib.common import Stats, Violation

PROP = 'C06'
RULE = (
    'Hypothesis-generated well-formed meta-patterns (nested binders, constrained metavariables, stacked ESubst/SSubst; '
    'Python side also nested notation) x variable ids 0..3 x up to 6 admissible concrete instantiations each (constructed to '
    'satisfy the declared constraints, resolved capture-avoidingly; capturing ones skipped and counted). A judgement that '
    'is true must hold textually of every resolved instance. non-trivial = (pattern, variable, judgement) with judgement '
    'true, the pattern containing a metavariable or pending substitution, and at least one admissible instance in which '
    'the variable id occurs somewhere; distinct by that triple'
)
ASSUME = [
    'soundness only is demanded (docs call the judgements best-effort)',
    'admissible = concrete plug textually satisfying the declared e_fresh/s_fresh/positive/negative lists; a metavariable declared an application context in x (app_ctx_holes) is plugged with a pattern in which x occurs exactly once, below applications only',
    'instances are sampled, not enumerated',
]
CFG = gens.Cfg(ids=(0, 1, 2, 3), nsyms=2, holes=True)
NAMES = ('e_fresh', 's_fresh', 'positive', 'negative')


def _pool():
    groups, by_label, defs = notations.registry()
    return groups['prop'] + groups['defn'] + groups['extra'] + groups['gen'][:6], by_label, defs


@st.composite
def cases(draw):
    part = draw(st.sampled_from(['rust', 'rust', 'py']))
    if part == 'rust':
        p = gens.draw_pattern(draw, CFG, draw(st.integers(1, 4)))
        if not R.metavars(p) and draw(st.integers(0, 3)):
            p = gens.draw_subst(draw, CFG, 2)
        sug = None
    else:
        pool, _, defs = _pool()
        sug = gens.draw_sugared(draw, CFG, draw(st.integers(1, 3)), pool, True, defs)
        p = gens.expand_sugared(sug, defs)
    sigmas = []
    for _ in range(6):
        sigmas.append(sorted(gens.draw_admissible_instance(draw, p, CFG, 2, respect_holes=True).items()))
    return {'part': part, 'p': p, 'sug': sug, 'sigmas': sigmas}


def case_json(c):
    return {'part': c['part'], 'p': gens.to_json(c['p']), 'sug': gens.sugared_to_json(c['sug']) if c['sug'] is not None else None,
            'sigmas': [[[k, gens.to_json(v)] for k, v in s] for s in c['sigmas']]}


def case_from_json(j):
    _, by_label, _ = notations.registry()
    return {'part': j['part'], 'p': gens.from_json(j['p']),
            'sug': gens.sugared_from_json(j['sug'], by_label) if j.get('sug') is not None else None,
            'sigmas': [[(k, gens.from_json(v)) for k, v in s] for s in j['sigmas']]}


def holds(name, inst, x):
    if name == 'e_fresh': return x not in R.free_evars(inst)
    if name == 's_fresh': return x not in R.free_svars(inst)
    if name == 'positive': return -1 not in R.polarities(inst, x)
    return 1 not in R.polarities(inst, x)


def mentions(p, kind, x):
    """variable id x of the kind occurs anywhere in concrete p (free, bound or as binder)"""
    t = p[0]
    if t == 'e': return kind == 'e' and p[1] == x
    if t == 's': return kind == 's' and p[1] == x
    if t == 'y': return False
    if t in ('i', 'a'): return mentions(p[1], kind, x) or mentions(p[2], kind, x)
    if t == 'E': return (kind == 'e' and p[1] == x) or mentions(p[2], kind, x)
    return (kind == 's' and p[1] == x) or mentions(p[2], kind, x)


def body(c, stats: Stats):
    p = c['p']
    part = c['part']
    judged = {}   # (name, x) -> bool
    if part == 'rust':
        sym = R.rename_symbols(p, lambda s: s)  # ints already
        line = rustharness.run_batch([(M.emit(sym), b'', b'')], mode=2)[0]
        if not line.startswith('J '):
            # the checker refuses to build a pattern the generator believes well-formed: not C06's business,
            # but it must agree with the documented well-formedness (that is C05); count and skip
            stats.excluded['rust-rejected-construction'] += 1
            stats.case(None, False, ['rust', 'construction-rejected'])
            if R.well_formed(p):
                raise Violation('[rust] checker refuses to construct the documented-well-formed pattern %s' % R.show(p), case_json(c), 'rust-construct')
            return
        bits = line.split(' |P ')[0].split()[1:]
        for x in range(4):
            for j, name in enumerate(NAMES):
                judged[(name, x)] = bits[x][j] == '1'
    else:
        obj = gens.build_repo(c['sug'])
        exp_obj = R.to_repo(p)
        for x in range(4):
            a = obj.evar_is_free(x)
            b = exp_obj.evar_is_free(x)
            if a != b:
                raise Violation('[py] evar_is_free(%d) is %s on %s but %s on its expansion %s'
                                % (x, a, gens.show_sugared(c['sug']), b, R.show(p)), case_json(c), 'py-notation-invariance')
            judged[('e_fresh', x)] = a
    has_meta = bool(R.metavars(p))
    occurs = set()
    n_adm = 0
    for s in c['sigmas']:
        sigma = dict(s)
        try:
            inst = R.instantiate(p, sigma, mode='check')
        except R.Capture:
            stats.excluded['capturing-instance'] += 1
            continue
        if not R.is_concrete(inst):
            raise common.HarnessError('instance not concrete: %s' % R.show(inst))
        n_adm += 1
        for (name, x), val in judged.items():
            kind = 'e' if name == 'e_fresh' else 's'
            if mentions(inst, kind, x) or any(mentions(v, kind, x) for v in sigma.values()):
                occurs.add((name, x))
            if val and not holds(name, inst, x):
                raise Violation('[%s] %s(%s, %d) is judged true but fails on the admissible instance %s obtained with %s'
                                % (part, name, R.show(p) if part == 'rust' else gens.show_sugared(c['sug']), x, R.show(inst),
                                   {k: R.show(v) for k, v in sigma.items()}), case_json(c), part + '-' + name)
    for (name, x), val in judged.items():
        nt = val and has_meta and (name, x) in occurs and n_adm > 0
        stats.case((part, name, x, p, repr(c['sug'] and gens.show_sugared(c['sug']))), nt,
                   [part, '%s-%s' % (name, 'true' if val else 'false')] + (['nontrivial-' + name] if nt else []),
                   {'part': part, 'judgement': name, 'var': x, 'pattern': R.show(p) if part == 'rust' else gens.show_sugared(c['sug']),
                    'value': val, 'admissible_instances': n_adm} if nt else None)


def shard(stats: Stats, shard_i, nshards, seed, tier):
    n = {'quick': 2000, 'thorough': 20000}[tier]   # quick raised from 500: three seeded changes (C06-b, -d, -f) were reported by only 1-2 of 16 shards
    common.run_given(stats, seed, n, cases(), body)


def corpus():
    import glob, json, os

    for f in sorted(glob.glob(os.path.join(common.VERIF, 'corpus', PROP, '*.json'))):
        j = json.load(open(f, encoding='utf-8'))
        yield j.get('case', j)


def run(tier, t0):
    stats = Stats()
    rustharness.build_harness()
    for case in corpus():
        try:
            body(case_from_json(case), stats)
        except Violation as v:
            stats.violation(v)
    common.run_sharded(stats, 'checks.c06', 'shard', common.NPROC, tier)
    return common.finish(PROP, tier, stats, RULE, ASSUME, t0)


def replay(case):
    body(case_from_json(case), Stats())
