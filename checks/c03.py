"""C03 — published theory and claims are exactly what was declared.

Generated modules (axiom lists incl. duplicates, schematic axioms, pending substitutions; import trees with shared
sub-modules; claims proved by loading axioms or by library lemmas; symbol names differing only in case / whitespace)
are serialised through ProofExp.serialize (both optimise settings).  The reference machine decodes the three files;
its publish journal must equal the declaration, the symbol numbering must be one injective map across the three files,
and a module needing more than 256 ids must be refused.
"""
from __future__ import annotations

import json
import shutil
import tempfile

from hypothesis import strategies as st

from lib import common, gens, modules as MD, refmachine as M, refml as R
from lib.common import Stats, Violation

PROP = 'C03'
RULE = (
    'Hypothesis-generated module descriptions (lib/modules.py) serialised with optimize off and on; plus the id boundary '
    '(254..258 and 300 distinct symbols / variable ids 255, 256). non-trivial = module with >= 2 axioms from >= 2 modules, '
    '>= 2 symbols and >= 1 claim; distinct by the decoded publish journal'
)
ASSUME = [
    'the publish journal is read by lib/refmachine.py (documented machine)',
    'documented axiom order: imported modules first (depth-first, import order), then own axioms; compared as order-preserving de-duplicated sequences so a diamond import is not over-constrained',
]


@st.composite
def cases(draw):
    k = draw(st.integers(0, 11))
    if k == 0:
        n = draw(st.sampled_from([1, 2, 254, 255, 256, 257, 258, 300]))
        return {'kind': 'symbols', 'n': n, 'shape': draw(st.sampled_from(['one-axiom', 'many-axioms', 'claim']))}
    if k == 2:
        # a theory with many axioms, a few of them claimed (proved by loading them): memory slots close to the 256 a Load can
        # address; the published files must be the declaration under both optimise settings, and neither may be refused
        n = draw(st.sampled_from([60, 100, 127, 128, 129, 130, 160, 200]))
        return {'kind': 'theory', 'scale': {'n': n, 'shape': draw(st.sampled_from(['twice', 'chain', 'imp'])), 'lemma': False,
                                             'picks': sorted(set([0, n - 1] + draw(st.lists(st.integers(0, n - 1), max_size=2))))}}
    if k == 1:
        return {'kind': 'varid', 'which': draw(st.sampled_from(['evar', 'svar', 'metavar', 'exists', 'mu'])), 'id': draw(st.sampled_from([0, 200, 255, 256, 257, 1000]))}
    return {'kind': 'module', 'desc': draw(MD.module_descs())}


def journal(g, c, p):
    res = M.verify(g, c, p)
    return res


def check_files(case, files_by_opt, expected_axioms, expected_claims, descr):
    """files_by_opt: {False: (g,c,p), True: (g,c,p)} (a missing key = serialisation refused)."""
    journals = {}
    for opt, (g, c, p) in files_by_opt.items():
        res = M.verify(g, c, p)
        if res[0] != 'ACCEPT':
            raise Violation('%s optimize=%s: the documented machine rejects the emitted files (%s)' % (descr, opt, res[1]),
                            dict(case, optimize=opt), 'machine-reject')
        m = res[1]
        bij = R.SymbolBijection()
        ja = MD.dedup(m.axioms)
        ea = MD.dedup(expected_axioms)
        if len(ja) != len(ea) or not all(bij.unify(a, b) for a, b in zip(ea, ja)):
            raise Violation('%s optimize=%s: published axioms %s, declared (imports first) %s'
                            % (descr, opt, [R.show(x) for x in ja], [R.show(x) for x in ea]), dict(case, optimize=opt), 'axioms')
        # without de-duplication nothing may be dropped or invented either: every published axiom is declared and vice versa
        if len(m.axioms) < len(ea):
            raise Violation('%s optimize=%s: fewer axioms published than declared' % (descr, opt), dict(case, optimize=opt), 'axioms-count')
        # claims: the machine stacks them; they must be discharged in declaration order
        if len(m.proved) != len(expected_claims) or not all(bij.unify(a, b) for a, b in zip(expected_claims, m.proved)):
            raise Violation('%s optimize=%s: claims discharged %s, declared %s'
                            % (descr, opt, [R.show(x) for x in m.proved], [R.show(x) for x in expected_claims]), dict(case, optimize=opt), 'claims')
        if len(m.claimed) != len(expected_claims) or not all(bij.unify(a, b) for a, b in zip(reversed(expected_claims), m.claimed)):
            raise Violation('%s optimize=%s: claim file publishes %s, declared (reversed) %s'
                            % (descr, opt, [R.show(x) for x in m.claimed], [R.show(x) for x in reversed(expected_claims)]), dict(case, optimize=opt), 'claim-file')
        journals[opt] = (m.axioms, m.claimed, m.proved)
    if len(journals) == 2:
        # identical up to a consistent renumbering of symbols (numbers are assigned by first use, which optimisation changes)
        bij = R.SymbolBijection()
        a, b = journals[False], journals[True]
        same = all(len(x) == len(y) and all(bij.unify(R.rename_symbols(p, lambda s: 'n%s' % s), q) for p, q in zip(x, y)) for x, y in zip(a, b))
        if not same:
            raise Violation('%s: the publish journal differs between optimize off and on' % descr, case, 'optimize-differs')
    return journals


def serialize_both(module, case, descr):
    d = tempfile.mkdtemp(prefix='c03_')
    out = {}
    errs = {}
    try:
        for opt in (False, True):
            try:
                out[opt] = MD.serialize(module, d, 'mod%d' % int(opt), 'binary', opt)
            except (ValueError, OverflowError) as e:   # refused (id out of byte range)
                errs[opt] = '%s: %s' % (type(e).__name__, str(e)[:100])
            except Exception as e:
                raise Violation('%s optimize=%s: serialisation raised %s: %s' % (descr, opt, type(e).__name__, str(e)[:300]), dict(case, optimize=opt), 'serialize-raise')
    finally:
        shutil.rmtree(d, ignore_errors=True)
    return out, errs


def body(c, stats: Stats):
    from proof_generation.proof import ProofExp
    import proof_generation.pattern as P

    if c['kind'] == 'module':
        desc = c['desc']
        try:
            module, built = MD.build_module(desc)
        except Exception as e:
            raise Violation('building the module raised %s: %s' % (type(e).__name__, str(e)[:300]), c, 'build-raise')
        files, errs = serialize_both(module, c, 'module %s' % desc['name'])
        j = check_files(c, files, built.gamma_order, built.claims, 'module')
        nmods = len(built.by_name)
        nsyms = len(set().union(*[set(R.symbols(a)) for a in built.gamma_order + built.claims])) if (built.gamma_order or built.claims) else 0
        nt = len(MD.dedup(built.gamma_order)) >= 2 and nmods >= 2 and nsyms >= 2 and len(built.claims) >= 1
        stats.case(repr((j.get(False), sorted(errs))), nt,
                   ['module', 'modules-%d' % min(nmods, 5), 'claims-%d' % min(len(built.claims), 3), 'refused' if errs else 'encoded']
                   + (['has-diamond'] if 'ref' in repr(desc) else []) + (['has-lemma-claims'] if desc.get('use_prop') else []),
                   {'modules': nmods, 'axioms': [R.show(a) for a in built.gamma_order][:8], 'claims': [R.show(x) for x in built.claims][:4], 'refused': errs})
        return
    if c['kind'] == 'theory':
        from checks.c02 import scale_module

        module = scale_module(c['scale'])
        files, errs = serialize_both(module, c, 'theory of %d axioms' % c['scale']['n'])
        stats.case(('theory', json.dumps(c['scale'], sort_keys=True)), True, ['scale-theory', 'refused' if errs else 'encoded'], {'axioms': c['scale']['n'], 'refused': errs})
        check_files(c, files, [R.from_repo(a) for a in module._axioms], [R.from_repo(x) for x in module._claims], 'theory of %d axioms' % c['scale']['n'])
        if errs:
            raise Violation('a theory of %d axioms over %d symbols (claims: axioms %s) was refused: %s' % (c['scale']['n'], c['scale']['n'], c['scale']['picks'], errs), c, 'refused-theory')
        return
    if c['kind'] == 'symbols':
        n = c['n']
        syms = [P.Symbol('sym_%d' % i) for i in range(n)]
        if c['shape'] == 'one-axiom':
            ax = syms[0]
            for s in syms[1:]: ax = P.App(ax, s)
            module = ProofExp(axioms=[ax]); claims = []
        elif c['shape'] == 'many-axioms':
            module = ProofExp(axioms=[P.App(s, s) for s in syms[: min(n, 200)]] + ([P.App(syms[-1], syms[0])] if n > 200 else [])); claims = []
            if n > 200:
                ax = syms[0]
                for s in syms[1:]: ax = P.App(ax, s)
                module._axioms.append(ax)
        else:
            ax = syms[0]
            for s in syms[1:]: ax = P.Implies(s, ax)
            module = ProofExp(axioms=[ax], claims=[ax]); module._proof_expressions = [module.load_axiom(ax)]; claims = [R.from_repo(ax)]
        files, errs = serialize_both(module, c, '%d symbols' % n)
        stats.case(('symbols', n, c['shape'], sorted(files)), n >= 2, ['boundary-symbols', 'n-%d' % n, 'refused' if errs else 'encoded'],
                   {'distinct_symbols': n, 'shape': c['shape'], 'refused': errs})
        if n > 256 and files:
            # it returned: then the decoded files must still equal the declaration, which they cannot
            pass
        check_files(c, files, [R.from_repo(a) for a in module._axioms], claims, '%d symbols' % n)
        if n <= 256 and errs:
            raise Violation('a module with %d <= 256 distinct symbols was refused: %s' % (n, errs), c, 'refused-small')
        return
    if c['kind'] == 'varid':
        i = c['id']
        pat = {'evar': lambda: P.EVar(i), 'svar': lambda: P.SVar(i), 'metavar': lambda: P.MetaVar(i),
               'exists': lambda: P.Exists(i, P.EVar(0)), 'mu': lambda: P.Mu(i, P.SVar(i))}[c['which']]()
        module = ProofExp(axioms=[pat], claims=[pat]); module._proof_expressions = [module.load_axiom(pat)]
        files, errs = serialize_both(module, c, '%s id %d' % (c['which'], i))
        stats.case(('varid', c['which'], i), True, ['boundary-varid', 'refused' if errs else 'encoded'], {'constructor': c['which'], 'id': i, 'refused': errs})
        check_files(c, files, [R.from_repo(pat)], [R.from_repo(pat)], '%s id %d' % (c['which'], i))
        if i <= 255 and errs:
            raise Violation('id %d <= 255 was refused: %s' % (i, errs), c, 'refused-small')
        return
    raise common.HarnessError(c['kind'])


def shard(stats: Stats, shard_i, nshards, seed, tier):
    n = {'quick': 120, 'thorough': 4000}[tier]
    common.run_given(stats, seed, n, cases(), body)


def corpus():
    import glob, json, os

    for f in sorted(glob.glob(os.path.join(common.VERIF, 'corpus', PROP, '*.json'))):
        j = json.load(open(f, encoding='utf-8'))
        yield j.get('case', j)


def run(tier, t0):
    stats = Stats()
    for case in corpus():
        try:
            body({k: v for k, v in case.items() if k != 'optimize'}, stats)
        except Violation as v:
            stats.violation(v)
    common.run_sharded(stats, 'checks.c03', 'shard', common.NPROC, tier)
    return common.finish(PROP, tier, stats, RULE, ASSUME, t0)


def replay(case):
    body({k: v for k, v in case.items() if k != 'optimize'}, Stats())
