"""C20 — K execution traces become chained, checkable rewrite proofs.

Generated Kore definitions (sorts, hooked sorts, constants, functions, cells, `kseq`, parametric `inj{From,To}`; rewrite rules
with 0-3 variables, shared names across rules, repeated variables inside a rule) are loaded with
LanguageSemantics.from_kore_definition on stand-in Kore terms (lib/kore_shim.py).  Traces of 0-6 chained rule applications with
ground substitutions are fed (a) through rewrite_steps.get_proof_hints + ExecutionProofExp.from_proof_hints and (b) step by step
through ExecutionProofExp.rewrite_event with one deliberately mismatching step.
"""
from __future__ import annotations

import shutil
import tempfile

from hypothesis import strategies as st

from lib import common, kore_shim, modules as MD, notations, refmachine as M, refml as R, rustharness
from lib.common import Stats, Violation

PROP = 'C20'
RULE = (
    'Hypothesis-generated signatures, rules, ground substitutions and traces (each step starts from the configuration the previous '
    'one reached; one variant with a deliberately mismatching step). non-trivial = trace of length >= 2 containing a rule with >= 1 '
    'variable; mismatching traces are counted separately; distinct by (definition, trace)'
)
ASSUME = [
    'pyk.kore.syntax is absent in this sandbox: the check runs against lib/kore_shim.py, dataclasses with the field names/order the code destructures',
    'expected patterns are computed by an independent conversion of the Kore terms (symbol applications left-nested over sort parameters and arguments; notation bodies taken from the shipped Notation objects)',
    'substitution values are applications of functional symbols (rewrite_event asserts this)',
]
K = kore_shim


def setup():
    kore_shim.install()


# ---------------------------------------------------------------------------
# generation


@st.composite
def cases(draw):
    nsorts = draw(st.integers(1, 3))
    sorts = ['S%d' % i for i in range(nsorts)]
    hooked = [draw(st.integers(0, 4)) == 0 for _ in sorts]
    syms = {}   # name -> (arity, is_cell)
    for i in range(draw(st.integers(2, 5))):
        syms['c%d' % i] = (0, False)
    for i in range(draw(st.integers(1, 3))):
        syms['f%d' % i] = (draw(st.integers(1, 2)), False)
    if draw(st.booleans()): syms['kcell'] = (1, True)
    if draw(st.booleans()): syms['kseq'] = (2, False)
    use_inj = draw(st.booleans())
    names = sorted(syms)

    def term(depth, vars_=()):
        pool = [n for n in names if syms[n][0] == 0]
        if vars_ and draw(st.integers(0, 2)) == 0:
            return ['v', draw(st.sampled_from(list(vars_)))]
        if depth == 0 or draw(st.integers(0, 2)) == 0:
            return ['app', draw(st.sampled_from(pool)), [], []]
        k = draw(st.integers(0, 9))
        if k == 0:
            return ['dv', draw(st.sampled_from(sorts)), draw(st.sampled_from(['0', '42', 'true', 'a b']))]
        if k == 1 and use_inj:
            return ['app', 'inj', [draw(st.sampled_from(sorts)), draw(st.sampled_from(sorts))], [term(depth - 1, vars_)]]
        n = draw(st.sampled_from(names))
        return ['app', n, [], [term(depth - 1, vars_) for _ in range(syms[n][0])]]

    def ground_functional(depth):
        # substitution values: head must be a (functional) symbol application
        t = term(depth)
        while t[0] != 'app':
            t = term(depth)
        return t

    var_names = ['X', 'Y', 'Var0', 'X']   # shared names across rules; duplicates raise the chance of repeated variables
    rules = []
    trace = []
    config = term(2)
    init = config
    nsteps = draw(st.integers(0, 6))
    seen_claims = set()
    rule_sort = draw(st.sampled_from(sorts))
    for _ in range(nsteps):
        # abstract the current configuration into a left-hand side
        sigma = {}

        def abstract(t, depth=0):
            if t[0] == 'app' and len(sigma) < 3 and draw(st.integers(0, 3)) == 0 and (depth > 0 or draw(st.booleans())):
                for name, val in sigma.items():
                    if val == t and draw(st.booleans()):
                        return ['v', name]
                name = draw(st.sampled_from(var_names))
                if name in sigma:
                    if sigma[name] == t: return ['v', name]
                    return t
                sigma[name] = t
                return ['v', name]
            if t[0] == 'app':
                return ['app', t[1], t[2], [abstract(a, depth + 1) for a in t[3]]]
            return t

        lhs = abstract(config)
        rhs = term(2, tuple(sigma))
        step_claim = (repr(config), repr(subst(rhs, sigma)))
        if step_claim in seen_claims:
            # ProofExp.add_claim asserts that claims are pairwise distinct, so a trace that repeats the very same
            # instantiated rewrite cannot be represented; such traces are outside the domain (DESIGN C20)
            break
        seen_claims.add(step_claim)
        rules.append({'sort': rule_sort, 'lhs': lhs, 'rhs': rhs})
        trace.append({'rule': len(rules) - 1, 'sigma': dict(sigma)})
        config = subst(rhs, sigma)
    # distractor rules and a shuffled declaration order
    for _ in range(draw(st.integers(0, 2))):
        vs = tuple(draw(st.lists(st.sampled_from(var_names), max_size=2, unique=True)))
        lhs_, rhs_ = (term(2, vs) if vs else term(2)), term(2, vs)
        if use_inj and draw(st.booleans()):
            # sort-parametric rule (never applied in the trace): sort variables are variables too - equal ones must map to the
            # same metavariable, distinct ones to distinct metavariables
            sa, sb = draw(st.sampled_from([('?S1', '?S2'), ('?S2', '?S1'), ('?S1', '?S1'), ('?S1', sorts[0])]))
            lhs_ = ['app', 'inj', ['?S1', '?S2'], [lhs_]]
            rhs_ = ['app', 'inj', [sa, sb], [rhs_]]
        rules.append({'sort': rule_sort, 'lhs': lhs_, 'rhs': rhs_})
    order = list(draw(st.permutations(range(len(rules)))))
    bad = None
    if trace and draw(st.integers(0, 2)) == 0:
        bad = draw(st.integers(0, len(trace) - 1))
    return {'sorts': sorts, 'hooked': hooked, 'syms': {k: list(v) for k, v in syms.items()}, 'use_inj': use_inj, 'rules': rules, 'order': order,
            'init': init, 'trace': trace, 'bad': bad, 'via_hints': draw(st.booleans()),
            'bad_mode': draw(st.sampled_from(['wrong', 'omit'])), 'bad_pick': draw(st.integers(0, 3)),
            'noise': draw(st.lists(st.integers(0, 5), max_size=8)), 'axnoise': draw(st.lists(st.integers(0, 5), max_size=6))}


def subst(t, sigma):
    if t[0] == 'v': return sigma[t[1]]
    if t[0] == 'app': return ['app', t[1], t[2], [subst(a, sigma) for a in t[3]]]
    return t


def tvars(t, acc=None):
    acc = [] if acc is None else acc
    if t[0] == 'v':
        if t[1] not in acc: acc.append(t[1])
    elif t[0] == 'app':
        for a in t[3]: tvars(a, acc)
    return acc


def _ksort(s):
    return K.SortVar(s[1:]) if s.startswith('?') else K.SortApp(s)


def sortvars(t, acc=None):
    acc = [] if acc is None else acc
    if t[0] == 'app':
        for s_ in t[2]:
            if s_.startswith('?') and s_ not in acc: acc.append(s_)
        for a in t[3]: sortvars(a, acc)
    return acc


def to_kore(t, sort0):
    if t[0] == 'v': return K.EVar(t[1], K.SortApp(sort0))
    if t[0] == 'dv': return K.DV(K.SortApp(t[1]), K.String(t[2]))
    return K.App(t[1], tuple(_ksort(s) for s in t[2]), tuple(to_kore(a, sort0) for a in t[3]))


def to_ref(t, varmap):
    """independent conversion"""
    if t[0] == 'v': return R.MV(varmap[t[1]])
    if t[0] == 'dv': return R.A(R.A(R.Y('kore_dv'), R.Y('ksort_' + t[1])), R.Y(t[2]))
    head = R.Y('kore_kseq') if t[1] == 'kseq' else R.Y('ksym_' + t[1])
    p = head
    for s in t[2]: p = R.A(p, R.MV(varmap['sort:' + s]) if s.startswith('?') else R.Y('ksort_' + s))
    for a in t[3]: p = R.A(p, to_ref(a, varmap))
    return p


def rewrites_ref(sort, l, r):
    _, by_label, defs = notations.registry()
    body = defs[id(by_label['kore-rewrites'])]
    return R.instantiate(body, {0: R.Y('ksort_' + sort), 1: l, 2: r})


def definition(c):
    sents = []
    for s, h in zip(c['sorts'], c['hooked']):
        sents.append(K.SortDecl(s, (), (), h))
    for name, (ar, cell) in sorted(c['syms'].items()):
        attrs = [K.App('functional'), K.App('constructor')] + ([K.App('cell')] if cell else [])
        sents.append(K.SymbolDecl(K.Symbol(name, ()), tuple(K.SortApp(c['sorts'][0]) for _ in range(ar)), K.SortApp(c['sorts'][-1]), tuple(attrs)))
    if c['use_inj']:
        sents.append(K.SymbolDecl(K.Symbol('inj', (K.SortVar('From'), K.SortVar('To'))), (K.SortVar('From'),), K.SortVar('To'), (K.App('functional'),)))
    ordinal_of = {}
    noise = list(c.get('axnoise', []))
    n_axioms = 0
    const0 = sorted(n for n in c['syms'] if c['syms'][n][0] == 0)[0]
    for ri in c['order']:
        # axioms that are not rules (each still takes an ordinal): a \\rewrites whose sides are not conjunctions, a plain
        # pattern, an equation-free implication - the ordinals in a trace are positions among ALL axioms
        while noise and noise[0] % 3 != 0:
            k_ = noise.pop(0)
            s0 = K.SortApp(c['sorts'][0]); a0 = K.App(const0, (), ())
            sents.append(K.Axiom((), K.Rewrites(s0, a0, a0) if k_ % 3 == 1 else K.Top(s0), ()))
            n_axioms += 1
        if noise: noise.pop(0)
        pos = n_axioms
        n_axioms += 1
        r = c['rules'][ri]
        s = K.SortApp(r['sort'])
        pat = K.Rewrites(s, K.And(s, (to_kore(r['lhs'], r['sort']), K.Top(s))), K.And(s, (to_kore(r['rhs'], r['sort']), K.Top(s))))
        sents.append(K.Axiom(tuple(K.SortVar(x[1:]) for x in sortvars(r['lhs']) + [y for y in sortvars(r['rhs']) if y not in sortvars(r['lhs'])]), pat, ()))
        ordinal_of[ri] = pos
    return K.Definition((K.Module('M', tuple(sents)),)), ordinal_of


class Bij(R.SymbolBijection):
    def __init__(self):
        super().__init__(); self.mf = {}; self.mb = {}

    def unify(self, a, b):
        if a[0] == 'm' and b[0] == 'm':
            if a[1] in self.mf: return self.mf[a[1]] == b[1]
            if b[1] in self.mb: return False
            self.mf[a[1]] = b[1]; self.mb[b[1]] = a[1]
            return True
        return super().unify(a, b)


# ---------------------------------------------------------------------------


def body(c, stats: Stats):
    setup()
    from proof_generation.k.execution_proof_generation import ExecutionProofExp
    from proof_generation.k.kore_convertion.language_semantics import LanguageSemantics
    from proof_generation.k.kore_convertion.rewrite_steps import RewriteStepExpression, get_proof_hints
    from proof_generation.llvm_proof_hint import LLVMRewriteTrace, LLVMRuleEvent

    defn, ordinal_of = definition(c)
    try:
        sem = LanguageSemantics.from_kore_definition(defn)
    except Exception as e:
        raise Violation('from_kore_definition raised %s: %s' % (type(e).__name__, str(e)[:300]), c, 'definition-raise')
    # 1. variable mapping of every rule
    for ri, r in enumerate(c['rules']):
        rule = sem.get_axiom(ordinal_of[ri])
        vs = tvars(r['lhs']) + [v for v in tvars(r['rhs']) if v not in tvars(r['lhs'])]
        varmap = {v: 1000 + i for i, v in enumerate(vs)}
        for i_, sv_ in enumerate(sortvars(r['lhs']) + [y for y in sortvars(r['rhs']) if y not in sortvars(r['lhs'])]):
            varmap['sort:' + sv_] = 2000 + i_
        want = rewrites_ref(r['sort'], to_ref(r['lhs'], varmap), to_ref(r['rhs'], varmap))
        got = R.from_repo(rule.pattern)
        if not Bij().unify(want, got):
            raise Violation('rule %d converts to %s, expected (up to an injective renaming of metavariables) %s' % (ri, R.show(got), R.show(want)), c, 'rule-conversion')
    # 2. the trace
    configs = [c['init']]
    for st_ in c['trace']:
        configs.append(subst(c['rules'][st_['rule']]['rhs'], st_['sigma']))
    expected_claims = []
    for st_ in c['trace']:
        r = c['rules'][st_['rule']]
        expected_claims.append(rewrites_ref(r['sort'], to_ref(subst(r['lhs'], st_['sigma']), {}), to_ref(subst(r['rhs'], st_['sigma']), {})))
    nvars = [len(tvars(c['rules'][s['rule']]['lhs']) + tvars(c['rules'][s['rule']]['rhs'])) for s in c['trace']]
    nt = len(c['trace']) >= 2 and any(nvars)
    cls = ['trace-len-%d' % min(len(c['trace']), 6), 'via-hints' if c['via_hints'] else 'via-rewrite_event'] + (['hints-with-noise-events'] if c['via_hints'] and c['bad'] is None and any(c.get('noise', [])) else []) + (['mismatching', 'mismatching-' + c.get('bad_mode', 'wrong')] if c['bad'] is not None else ['matching']) \
        + (['rule-with-vars'] if any(nvars) else []) + (['inj'] if c['use_inj'] else []) + (['repeated-var'] if any(_repeated(c['rules'][s['rule']]['lhs']) for s in c['trace']) else [])
    stats.case(repr(c), nt or (c['bad'] is not None and len(c['trace']) >= 1), cls,
               {'rules': [[_show(r['lhs']), _show(r['rhs'])] for r in c['rules']][:4], 'init': _show(c['init']), 'trace': [[s['rule'], {k: _show(v) for k, v in s['sigma'].items()}] for s in c['trace']], 'bad_step': c['bad']})

    def conv_subst(st_):
        return sem.convert_substitutions({k: to_kore(v, 'S0') for k, v in st_['sigma'].items()}, ordinal_of[st_['rule']])

    # 3. conversion commutes with substitution
    for st_ in c['trace']:
        rule = sem.get_axiom(ordinal_of[st_['rule']])
        r = c['rules'][st_['rule']]
        lhs_s, rhs_s = subst(r['lhs'], st_['sigma']), subst(r['rhs'], st_['sigma'])
        inst = R.from_repo(rule.pattern.instantiate(conv_subst(st_)))
        direct = R.from_repo(sem.convert_pattern(K.Rewrites(K.SortApp(r['sort']), to_kore(lhs_s, 'S0'), to_kore(rhs_s, 'S0'))))
        want = rewrites_ref(r['sort'], to_ref(lhs_s, {}), to_ref(rhs_s, {}))
        if inst != want or direct != want:
            raise Violation('instantiating the converted rule gives %s, converting the substituted rule gives %s, expected %s' % (R.show(inst), R.show(direct), R.show(want)), c, 'commute')
    if c['bad'] is None and c['via_hints']:
        # (a) through get_proof_hints + from_proof_hints
        from proof_generation.llvm_proof_hint import LLVMFunctionEvent, LLVMHookEvent, LLVMSideCondEvent

        events = []
        noise = list(c.get('noise', []))
        const = to_kore(['app', sorted(n for n in c['syms'] if c['syms'][n][0] == 0)[0], [], []], 'S0')

        def add_noise():
            # events that are not rule applications (side-condition checks, function and hook events, their result terms):
            # they describe no rewrite step and must not change the generated module
            k = noise.pop(0) if noise else 0
            if k == 1: events.append(LLVMFunctionEvent('Lblf', '0:1', ()))
            elif k == 2: events.append(LLVMHookEvent('INT.add', '0', (), const))
            elif k in (3, 4) and c['trace']:
                st0 = c['trace'][k % len(c['trace'])]
                events.append(LLVMSideCondEvent(ordinal_of[st0['rule']], tuple((kk, to_kore(v, 'S0')) for kk, v in st0['sigma'].items())))
                if k == 4: events.append(const)      # the side condition's result term
            elif k == 5: events.extend([LLVMFunctionEvent('Lblg', '1', (const,)), const])

        for i, st_ in enumerate(c['trace']):
            add_noise()
            events.append(LLVMRuleEvent(ordinal_of[st_['rule']], tuple((k, to_kore(v, 'S0')) for k, v in st_['sigma'].items())))
            events.append(to_kore(configs[i + 1], 'S0'))
            add_noise()
        tr = LLVMRewriteTrace((), to_kore(c['init'], 'S0'), tuple(events))
        try:
            pe = ExecutionProofExp.from_proof_hints(get_proof_hints(tr, sem), sem)
        except Exception as e:
            raise Violation('from_proof_hints raised %s on a chained trace: %s' % (type(e).__name__, str(e)[:300]), c, 'hints-raise')
    else:
        # (b) step by step, with the mismatching step if any
        init_pat = sem.convert_pattern(to_kore(c['init'], 'S0'))
        pe = ExecutionProofExp(sem, init_pat)
        for i, st_ in enumerate(c['trace']):
            rule = sem.get_axiom(ordinal_of[st_['rule']])
            if c['bad'] == i:
                # a step that does not start from the current configuration: perturb the substitution / use a wrong rule
                before = (len(pe.get_claims()), len(pe.get_proof_expressions()), len(pe.get_axioms()), R.from_repo(pe.current_configuration))
                wrong = dict(conv_subst(st_))
                import proof_generation.pattern as P

                marker = sem.get_symbol(sorted(n for n in c['syms'] if c['syms'][n][0] == 0)[0]).app()
                lhs_vars = [v for v in tvars(c['rules'][st_['rule']]['lhs']) if v in st_['sigma']]
                if c.get('bad_mode') == 'omit' and lhs_vars:
                    # the substitution leaves a variable of the left-hand side unbound: the instantiated left-hand side still
                    # contains a metavariable, so the step does not start from the (ground) current configuration
                    gone = lhs_vars[c.get('bad_pick', 0) % len(lhs_vars)]
                    wrong = dict(sem.convert_substitutions({k: to_kore(v, 'S0') for k, v in st_['sigma'].items() if k != gone}, ordinal_of[st_['rule']]))
                    still_same = False
                elif wrong:
                    k0 = sorted(wrong)[0]
                    wrong[k0] = sem.get_symbol('f0').app(*([marker] * c['syms']['f0'][0])) if R.from_repo(wrong[k0]) == R.from_repo(marker) else marker
                    lhs_now = subst(c['rules'][st_['rule']]['lhs'], st_['sigma'])
                    still_same = R.from_repo(rule.pattern.instantiate(wrong)) == R.from_repo(rule.pattern.instantiate(conv_subst(st_)))
                else:
                    still_same = True
                if still_same:
                    # substitution does not influence the lhs: force a mismatch through the configuration instead
                    pe._curr_config = P.App(pe.current_configuration, marker)
                    before = (before[0], before[1], before[2], R.from_repo(pe.current_configuration))
                    wrong = conv_subst(st_)
                try:
                    pe.rewrite_event(rule, wrong)
                except AssertionError:
                    after = (len(pe.get_claims()), len(pe.get_proof_expressions()), len(pe.get_axioms()), R.from_repo(pe.current_configuration))
                    if after != before:
                        raise Violation('a refused step changed the module: (claims, proofs, axioms, configuration) %s -> %s' % (before[:3], after[:3]), c, 'refused-step-side-effect')
                    return
                raise Violation('a step that does not start from the current configuration was accepted (step %d)' % i, c, 'mismatch-accepted')
            try:
                pe.rewrite_event(rule, conv_subst(st_))
            except Exception as e:
                raise Violation('rewrite_event raised %s on a chained step %d: %s' % (type(e).__name__, i, str(e)[:300]), c, 'step-raise')
            if R.from_repo(pe.current_configuration) != to_ref(configs[i + 1], {}):
                raise Violation('after step %d the current configuration is %s, expected %s' % (i, R.show(R.from_repo(pe.current_configuration)), R.show(to_ref(configs[i + 1], {}))), c, 'configuration')
    got_claims = [R.from_repo(x) for x in pe.get_claims()]
    # add_claim asserts distinctness; identical steps cannot be repeated, so expected claims are distinct here or an assertion fired above
    if got_claims != expected_claims:
        raise Violation('claims %s, expected %s' % ([R.show(x) for x in got_claims], [R.show(x) for x in expected_claims]), c, 'claims')
    if len(pe.get_proof_expressions()) != len(got_claims):
        raise Violation('%d proof expressions for %d claims' % (len(pe.get_proof_expressions()), len(got_claims)), c, 'proof-count')
    # 4. serialise and check
    d = tempfile.mkdtemp(prefix='c20_')
    try:
        for opt in (False, True):
            try:
                g, cl, p = MD.serialize(pe, d, 'k%d' % int(opt), 'binary', opt)
            except (ValueError, OverflowError):
                stats.excluded['refused-by-toolkit'] += 1
                continue
            except Exception as e:
                raise Violation('serialising the execution proof raised %s: %s' % (type(e).__name__, str(e)[:300]), dict(c, optimize=opt), 'serialize-raise')
            res = M.verify(g, cl, p)
            rc = rustharness.run_checker_bytes(g, cl, p, d + '/x')
            if rc != 0 or res[0] != 'ACCEPT':
                raise Violation('execution proof (optimize=%s): checker exit %d, documented machine %s %s' % (opt, rc, res[0], res[1] if res[0] == 'REJECT' else ''), dict(c, optimize=opt), 'checker-rejects')
            bij = R.SymbolBijection()
            if len(res[1].proved) != len(expected_claims) or not all(bij.unify(a, b) for a, b in zip(expected_claims, res[1].proved)):
                raise Violation('the machine discharged %s, expected %s' % ([R.show(x) for x in res[1].proved], [R.show(x) for x in expected_claims]), dict(c, optimize=opt), 'machine-claims')
    finally:
        shutil.rmtree(d, ignore_errors=True)


def _repeated(t):
    seen = []
    def go(x):
        if x[0] == 'v': seen.append(x[1])
        elif x[0] == 'app':
            for a in x[3]: go(a)
    go(t)
    return len(seen) != len(set(seen))


def _show(t):
    if t[0] == 'v': return t[1]
    if t[0] == 'dv': return '\\dv{%s}("%s")' % (t[1], t[2])
    return '%s%s(%s)' % (t[1], ('{%s}' % ','.join(t[2])) if t[2] else '', ', '.join(_show(a) for a in t[3]))


def shard(stats: Stats, shard_i, nshards, seed, tier):
    n = {'quick': 120, 'thorough': 4000}[tier]
    common.run_given(stats, seed, n, cases(), body)


def run(tier, t0):
    import glob, json, os

    stats = Stats()
    rustharness.build_checker()
    for f in sorted(glob.glob(os.path.join(common.VERIF, 'corpus', PROP, '*.json'))):
        j = json.load(open(f, encoding='utf-8'))
        try:
            body({k: v for k, v in j.get('case', j).items() if k != 'optimize'}, stats)
        except Violation as v:
            stats.violation(v)
    common.run_sharded(stats, 'checks.c20', 'shard', common.NPROC, tier)
    return common.finish(PROP, tier, stats, RULE, ASSUME, t0)


def replay(case):
    c = {k: v for k, v in case.items() if k != 'optimize'}
    c['syms'] = {k: list(v) for k, v in c['syms'].items()}
    body(c, Stats())
