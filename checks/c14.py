"""C14 — binary round trip: deserialising a serialised proof replays it.

The C04 histories are serialised by a SerializingInterpreter; after every step the bytes of all phases so far are fed
through deserialize_instructions into a fresh SerializingInterpreter (phase changes in between).  The fresh tracker must
end in the same stack / memory / claims (symbols up to renumbering) and must re-emit exactly the input bytes.  Cuts inside
an instruction and bytes that are not opcodes must raise.
"""
from __future__ import annotations

from hypothesis import strategies as st
from hypothesis.stateful import RuleBasedStateMachine, precondition, rule

from lib import common, gens, histories as H, refmachine as M, refml as R
from lib.common import Stats, Violation
from checks.c04 import Session, Sink

PROP = 'C14'
RULE = (
    'the C04 call histories (all three phases, every instruction the serialiser can emit); after every step the emitted bytes are '
    'deserialised into a fresh interpreter and compared (state and re-serialised bytes); plus cuts inside instructions and '
    'non-opcode bytes. non-trivial = phase stream containing at least one of ESubst, SSubst, constrained MetaVar, Quantifier, '
    'Generalization, Publish; distinct by bytes'
)
ASSUME = [
    'the fresh interpreter is given the original claims with symbols renamed to the numbers the serialiser assigned (the binary format carries no names)',
    'phases are fed in order into one fresh interpreter (memory is shared between phases, DESIGN 2.1)',
]
CUR = {'stats': None}
INTERESTING = {10: 'ESubst', 11: 'SSubst', 9: 'MetaVar-constrained', 15: 'Quantifier', 22: 'Generalization', 30: 'Publish'}
NON_OPCODES = [0, 1, 31, 32, 100, 136, 138, 255]


def fresh(claims):
    from proof_generation.claim import Claim
    from proof_generation.interpreter import ExecutionPhase
    from proof_generation.serializing_interpreter import SerializingInterpreter

    sinks = [Sink(), Sink(), Sink()]
    return SerializingInterpreter(ExecutionPhase.Gamma, sinks[0], [Claim(c) for c in claims], sinks[1], sinks[2]), sinks


def feed(it2, bufs, upto_phase):
    from proof_generation.deserialize import deserialize_instructions

    for ph in range(upto_phase + 1):
        if ph == 1: it2.into_claim_phase()
        if ph == 2: it2.into_proof_phase()
        deserialize_instructions(bufs[ph], it2)


def roundtrip(s: Session):
    """Compare the original tracker with a fresh one fed from the bytes."""
    it = s.it
    ph = s.r.phase
    bufs = [x.getvalue() for x in s.sinks]
    table = dict(getattr(it, '_symbol_identifiers', {}))  # the serialiser's own name -> number table
    ren = lambda name: str(table[name]) if name in table else name
    claims_all = H.Runner.claim_patterns(s.r.axioms, s.r.claim_specs)
    claims2 = [R.to_repo(R.rename_symbols(R.from_repo(c), ren)) for c in claims_all]
    it2, sinks2 = fresh(claims2)
    case = dict(s.case())
    try:
        feed(it2, bufs, ph)
    except Exception as e:
        import traceback

        tb = traceback.extract_tb(e.__traceback__)
        where = [f for f in tb if 'deserialize.py' in f.filename]
        line = where[-1].line if where else ''
        raise Violation('deserialising the bytes of a serialised history raised %s: %s (at `%s`); bytes gamma=%s claim=%s proof=%s'
                        % (type(e).__name__, str(e)[:200], line, bufs[0].hex(), bufs[1].hex(), bufs[2].hex()),
                        case, 'raise:%s' % type(e).__name__)
    bij = R.SymbolBijection()
    exp = H.expand_term
    for name, a, b in (('stack', it.stack, it2.stack), ('memory', it.memory, it2.memory)):
        ea, eb = [exp(t) for t in a], [exp(t) for t in b]
        if len(ea) != len(eb) or not all(k1 == k2 and bij.unify(p1, p2) for (k1, p1), (k2, p2) in zip(ea, eb)):
            raise Violation('%s after deserialisation differs: original %s, replayed %s'
                            % (name, [(k, R.show(p)) for k, p in ea], [(k, R.show(p)) for k, p in eb]), case, 'state-' + name)
    ca, cb = [R.from_repo(c.pattern) for c in it.claims], [R.from_repo(c.pattern) for c in it2.claims]
    if len(ca) != len(cb) or not all(bij.unify(p1, p2) for p1, p2 in zip(ca, cb)):
        raise Violation('claims after deserialisation differ: original %s, replayed %s' % ([R.show(p) for p in ca], [R.show(p) for p in cb]), case, 'state-claims')
    for k in range(ph + 1):
        if sinks2[k].getvalue() != bufs[k]:
            raise Violation('re-serialising while deserialising phase %d gives %s, input was %s' % (k, sinks2[k].getvalue().hex(), bufs[k].hex()), case, 'bytes')
    return bufs, claims2


def negative(s: Session, bufs, claims2, draw_int):
    """Cuts inside an instruction and non-opcode bytes must raise."""
    ph = s.r.phase
    buf = bufs[ph]
    if not buf:
        return 0
    bounds = [0]
    pos = 0
    for op, operands in M.decode(buf):
        pos += 1 + (len(operands) if op not in (9, 26) else (1 + sum(1 + len(l) for l in operands[1:]) if op == 9 else 1 + operands[0]))
        bounds.append(pos)
    inside = [i for i in range(1, len(buf)) if i not in bounds]
    tried = 0
    # every cut inside the last instruction (the one this step emitted) ...
    last_cuts = [i for i in inside if len(bounds) >= 2 and bounds[-2] < i < bounds[-1]]
    rounds = [[('truncated', buf[:cut]) for cut in last_cuts]]
    # ... plus a few drawn cuts and non-opcode insertions anywhere
    for _ in range(3):
        tests = []
        if inside:
            cut = inside[draw_int(0, len(inside) - 1)]
            tests.append(('truncated', buf[:cut]))
        b = bounds[draw_int(0, len(bounds) - 1)]
        bad = NON_OPCODES[draw_int(0, len(NON_OPCODES) - 1)]
        tests.append(('non-opcode %d' % bad, buf[:b] + bytes([bad]) + buf[b:]))
        rounds.append(tests)
    for tests in rounds:
        for what, data in tests:
            it2, _ = fresh(claims2)
            bb = list(bufs); bb[ph] = data
            tried += 1
            try:
                feed(it2, bb, ph)
            except Exception:
                continue
            raise Violation('%s input was deserialised without an error: phase %d bytes %s (original %s)' % (what, ph, data.hex(), buf.hex()),
                            dict(s.case(), bad_phase=ph, bad_bytes=data.hex()), 'negative-' + what.split()[0])
    return tried


class RT(RuleBasedStateMachine):
    def __init__(self):
        super().__init__()
        self.s = None

    @precondition(lambda self: self.s is None)
    @rule(data=st.data())
    def init(self, data):
        axioms, specs = H.draw_setup(data.draw)
        self.s = Session(axioms, specs)

    @precondition(lambda self: self.s is not None)
    @rule(data=st.data())
    def step(self, data):
        step = H.draw_step(data.draw, self.s.r)
        if not self.s.step(step):
            return
        bufs, claims2 = roundtrip(self.s)
        if data.draw(st.integers(0, 3)) == 0:
            n = negative(self.s, bufs, claims2, lambda lo, hi: data.draw(st.integers(lo, hi)))
            CUR['stats'].classes['negative-inputs'] += n
        CUR['stats'].classes['roundtrips'] += 1

    def teardown(self):
        if self.s is None:
            return
        s = self.s
        for k, sink in enumerate(s.sinks):
            b = sink.getvalue()
            if not b: continue
            try:
                ops = M.decode(b)
            except M.Reject:
                ops = []
            kinds = set()
            for op, operands in ops:
                if op in INTERESTING and (op != 9 or any(operands[1:])):
                    kinds.add(INTERESTING[op])
            CUR['stats'].case(b, bool(kinds), ['phase-stream', 'phase-%d' % k] + ['has-' + x for x in kinds],
                              {'phase': k, 'bytes': b.hex()[:300], 'interesting': sorted(kinds)})


def shard(stats: Stats, shard_i, nshards, seed, tier):
    n, steps = {'quick': (200, 30), 'thorough': (3000, 60)}[tier]
    CUR['stats'] = stats
    common.run_machine(stats, seed, n, steps, RT)


def replay(case):
    axioms, specs = H.setup_from_json(case['setup'])
    s = Session(axioms, specs)
    for step in case['trace']:
        if s.step(step):
            bufs, claims2 = roundtrip(s)
    if 'bad_bytes' in case:
        it2, _ = fresh(claims2)
        bb = list(bufs); bb[case['bad_phase']] = bytes.fromhex(case['bad_bytes'])
        try:
            feed(it2, bb, case['bad_phase'])
        except Exception:
            return
        raise Violation('malformed input deserialised without an error', case, 'negative')


def run(tier, t0):
    import glob, json, os

    stats = Stats()
    for f in sorted(glob.glob(os.path.join(common.VERIF, 'corpus', PROP, '*.json'))):
        j = json.load(open(f, encoding='utf-8'))
        try:
            replay(j.get('case', j))
            stats.case(f, False, ['corpus'])
        except Violation as v:
            stats.violation(v)
    common.run_sharded(stats, 'checks.c14', 'shard', common.NPROC, tier)
    return common.finish(PROP, tier, stats, RULE, ASSUME, t0)
