"""C09 — the tautology prover is a correct decision procedure.

Parts
  formula   prove_tautology on propositional patterns (exhaustive small implication/bot fragment + Hypothesis formulas with
            the propositional notations): verdict vs truth table, conclusion literally the pattern / its negation, proof
            replays on a stateful interpreter and (serialised) on the reference machine with Prop1-3/MP/Instantiate and the
            six declared (tautological) axioms only
  stages    to_conj_form, propag_neg, to_cnf, to_clauses: advertised shape, truth-table equivalence, both implication proofs
  clauses   start_resolution_algorithm on clause sets in every ordering: UNSAT => refutation, all-trivial => proof,
            otherwise inconclusive; and the same sets end-to-end as formulas
"""
from __future__ import annotations

import copy
import io
import itertools

from hypothesis import strategies as st

from lib import common, gens, refmachine as M, refml as R, refsem
from lib.common import Stats, Violation

PROP = 'C09'
RULE = (
    'exhaustive: every formula over phi0..phi(k-1), bot, -> up to a node bound; Hypothesis: formulas with not/top/and/or/equiv '
    'notation to depth 5, and clause sets (1-6 clauses of 1-3 literals over <= 4 variables) in all / random orderings fed to the '
    'resolution stage and end-to-end. non-trivial = formula with >= 2 variables and >= 3 connectives, or clause set with >= 3 '
    'clauses that is UNSAT or needs resolution; distinct by expansion / ordered clause list'
)
ASSUME = [
    'truth tables (lib/refsem.py) are the oracle; formulas over <= 4 metavariables',
    'reference machine (lib/refmachine.py) replays the serialised proof',
]
ALLOWED_RULES = {'EVar', 'SVar', 'Symbol', 'Implies', 'App', 'Mu', 'Exists', 'MetaVar', 'CleanMetaVar',
                 'Prop1', 'Prop2', 'Prop3', 'ModusPonens', 'Instantiate', 'Pop', 'Save', 'Load', 'Publish'}


class Sink(io.BytesIO):
    def close(self):
        pass


# formulas: ('v', i) | ('bot',) | ('imp', a, b) | ('not', a) | ('top',) | ('and', a, b) | ('or', a, b) | ('equiv', a, b)


def to_repo(f):
    import proof_generation.pattern as P

    k = f[0]
    if k == 'v': return P.MetaVar(f[1])
    if k == 'bot': return P.bot()
    if k == 'top': return P.top()
    if k == 'imp': return P.Implies(to_repo(f[1]), to_repo(f[2]))
    if k == 'not': return P.neg(to_repo(f[1]))
    if k == 'and': return P._and(to_repo(f[1]), to_repo(f[2]))
    if k == 'or': return P._or(to_repo(f[1]), to_repo(f[2]))
    if k == 'equiv': return P.equiv(to_repo(f[1]), to_repo(f[2]))
    raise ValueError(f)


def to_ref(f):
    k = f[0]
    if k == 'v': return R.MV(f[1])
    if k == 'bot': return R.BOT
    if k == 'top': return R.TOP
    if k == 'imp': return R.I(to_ref(f[1]), to_ref(f[2]))
    if k == 'not': return R.NOT(to_ref(f[1]))
    if k == 'and': return R.AND(to_ref(f[1]), to_ref(f[2]))
    if k == 'or': return R.OR(to_ref(f[1]), to_ref(f[2]))
    if k == 'equiv': return R.EQUIV(to_ref(f[1]), to_ref(f[2]))
    raise ValueError(f)


def show(f):
    k = f[0]
    if k == 'v': return 'p%d' % f[1]
    if k in ('bot', 'top'): return k
    if k == 'not': return '~' + show(f[1])
    return '(%s %s %s)' % (show(f[1]), {'imp': '->', 'and': '&', 'or': '|', 'equiv': '<->'}[k], show(f[2]))


def nconn(f):
    return 0 if f[0] in ('v', 'bot', 'top') else 1 + sum(nconn(x) for x in f[1:])


def tolist(f):
    return [f[0]] + [tolist(x) if isinstance(x, tuple) else x for x in f[1:]]


def fromlist(l):
    return tuple([l[0]] + [fromlist(x) if isinstance(x, list) else x for x in l[1:]])


def enum_formulas(nvars, max_nodes):
    by_size = {1: [('v', i) for i in range(nvars)] + [('bot',)]}
    for s in range(3, max_nodes + 1, 2):
        out = []
        for ls in range(1, s - 1, 2):
            for a in by_size[ls]:
                for b in by_size[s - 1 - ls]:
                    out.append(('imp', a, b))
        by_size[s] = out
    return [f for s in sorted(by_size) for f in by_size[s]]


def cnf_cost(f, pos=True):
    """(#clauses, total literals) estimate of the CNF of f (or of its negation): the prover's normal form is exponential,
    so generated formulas are bounded by this size measure rather than by a time limit."""
    k = f[0]
    if k in ('v', 'bot', 'top'): return 1
    if k == 'not': return cnf_cost(f[1], not pos)
    if k == 'imp': return cnf_cost(('or', ('not', f[1]), f[2]), pos)
    if k == 'equiv': return cnf_cost(('and', ('imp', f[1], f[2]), ('imp', f[2], f[1])), pos)
    a, b = cnf_cost(f[1], pos), cnf_cost(f[2], pos)
    conj = (k == 'and') == pos
    return a + b if conj else a * b


MAX_CNF = 10


@st.composite
def formulas(draw, depth=None):
    depth = draw(st.integers(0, 5)) if depth is None else depth
    if depth == 0 or draw(st.integers(0, 5)) == 0:
        return draw(st.sampled_from([('v', 0), ('v', 1), ('v', 2), ('v', 3), ('bot',), ('top',)]))
    k = draw(st.sampled_from(['imp', 'imp', 'not', 'and', 'or', 'equiv']))
    if k == 'not':
        return ('not', draw(formulas(depth - 1)))
    f = (k, draw(formulas(depth - 1)), draw(formulas(depth - 1)))
    if max(cnf_cost(f, True), cnf_cost(f, False)) > MAX_CNF:
        return f[1]
    return f


def lit_ref(x):
    return R.MV(x - 1) if x > 0 else R.NOT(R.MV(-x - 1))


def foldr(op, xs):
    return xs[0] if len(xs) == 1 else op(xs[0], foldr(op, xs[1:]))


def clause_ref(cl):
    return R.BOT if not cl else foldr(R.OR, [lit_ref(x) for x in cl])


def clauses_ref(cls):
    return R.TOP if not cls else foldr(R.AND, [clause_ref(c) for c in cls])


def clause_sat(cls, nv=4):
    """(satisfiable?, all_clauses_trivial?)"""
    sat = False
    for bits in itertools.product((False, True), repeat=nv):
        if all(any((bits[abs(x) - 1] if x > 0 else not bits[abs(x) - 1]) for x in c) for c in cls):
            sat = True
            break
    trivial = all(any(-x in c for x in c) for c in cls)
    return sat, trivial


def replay_proof(taut, pf, expected, descr, case):
    """Run thunk pf of module `taut` on a stateful interpreter and serialised on the reference machine."""
    from proof_generation.claim import Claim
    from proof_generation.interpreter import ExecutionPhase
    from proof_generation.serializing_interpreter import SerializingInterpreter

    got = R.from_repo(pf.conc)
    if got != expected:
        raise Violation('%s: the returned proof concludes %s, expected literally %s' % (descr, R.show(got), R.show(expected)), case, 'conc')
    taut._claims = [pf.conc]
    taut._proof_expressions = [pf]
    sinks = [Sink(), Sink(), Sink()]
    ser = SerializingInterpreter(ExecutionPhase.Gamma, sinks[0], [Claim(pf.conc)], sinks[1], sinks[2])
    try:
        taut.execute_full(ser)
    except Exception as e:
        raise Violation('%s: replaying the returned proof raised %s: %s' % (descr, type(e).__name__, str(e)[:300]), case, 'replay-raise')
    g, c, p = (s.getvalue() for s in sinks)
    res = M.verify(g, c, p)
    if res[0] != 'ACCEPT':
        raise Violation('%s: the serialised proof is rejected by the documented machine (%s)' % (descr, res[1]), case, 'machine-reject')
    m = res[1]
    if set(m.rules) - ALLOWED_RULES:
        raise Violation('%s: the proof uses %s' % (descr, sorted(set(m.rules) - ALLOWED_RULES)), case, 'rules')
    for ax in m.axioms:
        if not refsem.is_propositional(ax) or refsem.classify(ax) != 'taut':
            raise Violation('%s: declared axiom %s is not a propositional tautology' % (descr, R.show(ax)), case, 'axiom')
    if m.proved != [expected]:
        raise Violation('%s: the machine discharged %s' % (descr, [R.show(t) for t in m.proved]), case, 'machine-conc')


# ---------------------------------------------------------------------------
# ConjForm helpers (read the repo's ConjForm objects structurally)


def cf_to_ref(t):
    n = type(t).__name__
    if n == 'CFBot': p = R.BOT
    elif n == 'CFVar': p = R.MV(t.id)
    elif n == 'CFOr': p = R.OR(cf_to_ref(t.left), cf_to_ref(t.right))
    elif n == 'CFAnd': p = R.AND(cf_to_ref(t.left), cf_to_ref(t.right))
    else: raise ValueError(n)
    return R.NOT(p) if t.negated else p


def cf_shape(t, allow_and, neg_only_on_leaves):
    n = type(t).__name__
    if n == 'CFVar': return True
    if n == 'CFBot': return False
    if n == 'CFAnd' and not allow_and: return False
    if neg_only_on_leaves and t.negated: return False
    return cf_shape(t.left, allow_and, neg_only_on_leaves) and cf_shape(t.right, allow_and, neg_only_on_leaves)


def is_cnf(t):
    n = type(t).__name__
    if n == 'CFAnd': return not t.negated and is_cnf(t.left) and is_cnf(t.right)
    return is_disj_of_lits(t)


def is_disj_of_lits(t):
    n = type(t).__name__
    if n == 'CFVar': return True
    if n == 'CFOr': return not t.negated and is_disj_of_lits(t.left) and is_disj_of_lits(t.right)
    return False


def equivalent(a, b):
    vs = sorted(R.metavars(a) | R.metavars(b))
    return refsem.truth_table(a, vs)[1] == refsem.truth_table(b, vs)[1]


def check_stage(name, in_ref, out_ref, pf1, pf2, case):
    if not equivalent(in_ref, out_ref):
        raise Violation('stage %s: output %s is not logically equivalent to input %s' % (name, R.show(out_ref), R.show(in_ref)), case, 'stage-equiv:' + name)
    c1 = R.from_repo(pf1.conc)
    if c1 != R.I(in_ref, out_ref):
        raise Violation('stage %s: first proof concludes %s, expected %s' % (name, R.show(c1), R.show(R.I(in_ref, out_ref))), case, 'stage-pf1:' + name)
    c2 = R.from_repo(pf2.conc)
    if c2 != R.I(out_ref, in_ref):
        raise Violation('stage %s: second proof concludes %s, expected %s' % (name, R.show(c2), R.show(R.I(out_ref, in_ref))), case, 'stage-pf2:' + name)


# ---------------------------------------------------------------------------


def body(c, stats: Stats):
    from proof_generation.tautology import Tautology
    import proof_generation.pattern as P

    part = c['part']
    if part == 'formula':
        f = fromlist(c['f']) if isinstance(c['f'], list) else c['f']
        ref = to_ref(f)
        cls = refsem.classify(ref)
        taut = Tautology()
        try:
            res = taut.prove_tautology(to_repo(f))
        except (RecursionError, MemoryError):
            # resource exhaustion of the (exponential) normal form, not a wrong answer: counted, not judged
            stats.excluded['formula-resource-exhaustion'] += 1
            return
        except Exception as e:
            raise Violation('prove_tautology(%s) raised %s: %s' % (show(f), type(e).__name__, str(e)[:300]), c, 'formula-raise')
        nv = len(R.metavars(ref))
        stats.case(('f', ref), nv >= 2 and nconn(f) >= 3, ['formula', 'class-' + cls, 'vars-%d' % nv] + (['with-notation'] if any(t in repr(f) for t in ('not', 'and', 'or', 'equiv', 'top')) else []),
                   {'formula': show(f), 'class': cls})
        want = {'taut': True, 'unsat': False, 'contingent': None}[cls]
        got = None if res is None else res[0]
        if got != want:
            raise Violation('prove_tautology(%s) answered %s but the formula is %s' % (show(f), {True: 'proof of the formula', False: 'proof of the negation', None: 'inconclusive'}[got], cls), c, 'verdict:%s->%s' % (cls, got))
        if res is not None:
            replay_proof(taut, res[1], ref if res[0] else R.NOT(ref), 'prove_tautology(%s)' % show(f), c)
        return
    if part == 'stages':
        f = fromlist(c['f']) if isinstance(c['f'], list) else c['f']
        ref = to_ref(f)
        taut = Tautology()
        pat = to_repo(f)
        try:
            t1, a1, a2 = taut.to_conj_form(pat)
        except Exception as e:
            raise Violation('to_conj_form(%s) raised %s: %s' % (show(f), type(e).__name__, str(e)[:200]), c, 'stage-raise:to_conj_form')
        stats.case(('s', ref), len(R.metavars(ref)) >= 2 and nconn(f) >= 3, ['stages', 'conj-' + type(t1).__name__])
        if type(t1).__name__ == 'CFBot':
            # documented special case: only the first proof, of pat (negated bot = top) or of neg(pat)
            cls = refsem.classify(ref)
            want = ref if t1.negated else R.NOT(ref)
            if (t1.negated and cls != 'taut') or (not t1.negated and cls != 'unsat'):
                raise Violation('to_conj_form(%s) returned %s but the formula is %s' % (show(f), 'top' if t1.negated else 'bot', cls), c, 'stage-const')
            if R.from_repo(a1.conc) != want:
                raise Violation('to_conj_form(%s): constant result with proof of %s, expected %s' % (show(f), R.show(R.from_repo(a1.conc)), R.show(want)), c, 'stage-const-pf')
            return
        out1 = cf_to_ref(t1)
        if not cf_shape(t1, allow_and=False, neg_only_on_leaves=False):
            raise Violation('to_conj_form(%s) output %s contains something other than or / not / variables' % (show(f), R.show(out1)), c, 'stage-shape:to_conj_form')
        check_stage('to_conj_form', ref, out1, a1, a2, c)
        t1c = copy.deepcopy(t1)
        t2, b1, b2 = taut.propag_neg(t1c)
        out2 = cf_to_ref(t2)
        if not cf_shape(t2, allow_and=True, neg_only_on_leaves=True):
            raise Violation('propag_neg output %s has a negation above a connective' % R.show(out2), c, 'stage-shape:propag_neg')
        check_stage('propag_neg', out1, out2, b1, b2, c)
        t3, c1, c2 = taut.to_cnf(copy.deepcopy(t2))
        out3 = cf_to_ref(t3)
        if not is_cnf(t3):
            raise Violation('to_cnf output %s is not in conjunctive normal form' % R.show(out3), c, 'stage-shape:to_cnf')
        check_stage('to_cnf', out2, out3, c1, c2, c)
        cl, d1, d2 = taut.to_clauses(copy.deepcopy(t3))
        if not (isinstance(cl, list) and all(isinstance(x, list) and x and all(isinstance(l, int) and l != 0 for l in x) for x in cl)):
            raise Violation('to_clauses output %r is not a clause list' % (cl,), c, 'stage-shape:to_clauses')
        check_stage('to_clauses', out3, clauses_ref(cl), d1, d2, c)
        return
    if part == 'clauses':
        cls = [list(x) for x in c['clauses']]
        sat, trivial = clause_sat(cls)
        taut = Tautology()
        try:
            res = taut.start_resolution_algorithm([list(x) for x in cls])
        except Exception as e:
            raise Violation('start_resolution_algorithm(%s) raised %s: %s' % (cls, type(e).__name__, str(e)[:200]), c, 'clauses-raise')
        want = True if (trivial or not cls) else (None if sat else False)
        got = None if res is None else res[0]
        stats.case(('c', tuple(map(tuple, cls))), len(cls) >= 3 and want is not True, ['clauses', 'clauses-%s' % {True: 'all-trivial', None: 'sat', False: 'unsat'}[want], 'nclauses-%d' % min(len(cls), 6)],
                   {'clauses': cls, 'expected': {True: 'proof', None: 'inconclusive', False: 'refutation'}[want]})
        if got != want:
            raise Violation('start_resolution_algorithm(%s) answered %s, expected %s (the set is %s)'
                            % (cls, {True: 'proof', None: 'inconclusive', False: 'refutation'}[got], {True: 'proof', None: 'inconclusive', False: 'refutation'}[want],
                               'unsatisfiable' if not sat else ('trivially true' if trivial else 'satisfiable')), c, 'clauses-verdict:%s->%s' % (want, got))
        if res is not None:
            cr = clauses_ref(cls)
            want_conc = cr if res[0] else R.I(cr, R.BOT)
            if c.get('replay', True):
                replay_proof(taut, res[1], want_conc, 'start_resolution_algorithm(%s)' % cls, c)
            elif R.from_repo(res[1].conc) != want_conc:
                raise Violation('start_resolution_algorithm(%s): the returned proof concludes %s, expected %s' % (cls, R.show(R.from_repo(res[1].conc)), R.show(want_conc)), c, 'conc')
        return
    raise common.HarnessError(part)


@st.composite
def cases(draw):
    part = draw(st.sampled_from(['formula', 'formula', 'stages', 'clauses', 'clauses', 'clause-formula']))
    if part in ('formula', 'stages'):
        return {'part': part, 'f': tolist(draw(formulas()))}
    n = draw(st.integers(1, 6))
    cls = []
    for _ in range(n):
        k = draw(st.sampled_from([1, 1, 2, 2, 2, 3, 3, 3, 3, 4]))   # clauses of 4-5 literals: built and compared, not replayed (below)
        cls.append([draw(st.sampled_from([1, 2, 3, 4])) * draw(st.sampled_from([1, -1])) for _ in range(k)])
    if draw(st.integers(0, 6)) == 0:
        # directed: one clause of four literals refuted by unit clauses in every order (each literal is resolved away from the
        # front, the middle and the last position while three others remain)
        lits = [x * draw(st.sampled_from([1, -1])) for x in draw(st.permutations([1, 2, 3, 4]))]
        if draw(st.integers(0, 3)) == 0: lits[draw(st.integers(0, 2))] = lits[3 if draw(st.booleans()) else 0]
        cls = [lits] + [[-x] for x in draw(st.permutations(sorted(set(lits))))]
        cls = list(draw(st.permutations(cls))) if draw(st.booleans()) else cls
    elif draw(st.integers(0, 5)) == 0:
        # directed: every clause trivially true, several clauses over the same literals in different order / multiplicity
        # (different formulas with equal literal sets)
        v = draw(st.sampled_from([1, 2, 3, 4])); w = draw(st.sampled_from([1, 2, 3, 4]))
        shapes = [[v, -v], [-v, v], [v, v, -v], [-v, v, v], [v, -v, w], [w, v, -v], [-v, w, v]]
        cls = [list(draw(st.sampled_from(shapes))) for _ in range(draw(st.integers(2, 4)))]
    elif draw(st.integers(0, 3)) == 0:
        # directed: a resolution step both of whose parents keep other literals, one parent repeating a literal in its remainder
        # (clauses are lists; nothing in the clause-list stage removes repeats), closed off by units so that the set is UNSAT
        pv, a_, b_ = draw(st.permutations([1, 2, 3, 4]))[:3]
        sg = lambda x: x * draw(st.sampled_from([1, -1]))
        a_, b_ = sg(a_), sg(b_)
        rep = draw(st.sampled_from([[-pv, b_, b_], [b_, -pv, b_], [b_, b_, -pv], [-pv, b_, a_, b_], [-pv, b_, b_, b_]]))
        other = draw(st.sampled_from([[pv, a_], [a_, pv], [pv, a_, a_], [pv, b_]]))
        cls = [c_ for c_ in cls[: draw(st.integers(0, 2))]] + [rep, other, [-b_], [-a_]]
        cls = list(draw(st.permutations(cls)))
    elif draw(st.booleans()):
        # make it unsatisfiable more often: add unit clauses contradicting a chain
        v = draw(st.sampled_from([1, 2, 3, 4]))
        cls.insert(draw(st.integers(0, len(cls))), [v]); cls.insert(draw(st.integers(0, len(cls))), [-v])
    if part == 'clauses' or max(len(x) for x in cls) >= 4:
        # (proofs over clauses of four or more literals have millions of steps: their conclusion is compared, they are not replayed)
        return {'part': 'clauses', 'clauses': cls, 'replay': draw(st.integers(0, 3)) == 0 and max(len(x) for x in cls) <= 3}
    # end to end: the negation of the clause conjunction as a formula
    lit = lambda x: ('v', x - 1) if x > 0 else ('not', ('v', -x - 1))
    fr = lambda op, xs: xs[0] if len(xs) == 1 else (op, xs[0], fr(op, xs[1:]))
    f = ('not', fr('and', [fr('or', [lit(x) for x in c]) for c in cls]))
    return {'part': 'formula', 'f': tolist(f)}


def exhaustive_shard(stats: Stats, shard_i, nshards, seed, tier):
    nvars, nodes = {'quick': (2, 7), 'thorough': (3, 9)}[tier]
    fs = enum_formulas(nvars, nodes)
    for i, f in enumerate(fs):
        if i % nshards != shard_i: continue
        for part in ('formula', 'stages'):
            try:
                body({'part': part, 'f': tolist(f)}, stats)
            except Violation as v:
                stats.violation(v)
                return
    # every ordering of small clause sets
    lits = [1, -1, 2, -2, 3, -3]
    units = [[l] for l in lits]
    pairs = [[a, b] for a, b in itertools.combinations(lits, 2)]
    pool = units + pairs
    k = 0
    nsets = {'quick': 3, 'thorough': 4}[tier]
    for combo in itertools.combinations(range(len(pool)), nsets):
        k += 1
        if k % nshards != shard_i: continue
        if tier == 'quick' and k % 3: continue
        base = [pool[i] for i in combo]
        for pi, perm in enumerate(itertools.permutations(base)):
            try:
                # the proof replay (about 1 s for a refutation) is done for one ordering in a few subsets; the verdict and the
                # advertised conclusion are checked for every ordering
                body({'part': 'clauses', 'clauses': [list(x) for x in perm], 'replay': pi == 0 and k % 40 == 0}, stats)
            except Violation as v:
                stats.violation(v)
                return
    if shard_i == 0:
        stats.exhaustive_parts.append('formulas over %d variables, bot, -> with <= %d nodes: %d formulas (verdict + stages)' % (nvars, nodes, len(fs)))
        stats.exhaustive_parts.append('every ordering of every %d-subset of the %d unit/binary clauses over 3 variables%s' % (nsets, len(pool), ' (every third subset in the quick tier)' if tier == 'quick' else ''))


def shard(stats: Stats, shard_i, nshards, seed, tier):
    n = {'quick': 70, 'thorough': 4000}[tier]
    common.run_given(stats, seed, n, cases(), body)


def corpus():
    import glob, json, os

    for f in sorted(glob.glob(os.path.join(common.VERIF, 'corpus', PROP, '*.json'))):
        j = json.load(open(f, encoding='utf-8'))
        yield j.get('case', j)


def run(tier, t0):
    stats = Stats()
    for case in corpus():
        try:
            body(case, stats)
        except Violation as v:
            stats.violation(v)
    common.run_sharded(stats, 'checks.c09', 'exhaustive_shard', common.NPROC, tier)
    if not stats.violations:
        common.run_sharded(stats, 'checks.c09', 'shard', common.NPROC, tier)
    return common.finish(PROP, tier, stats, RULE, ASSUME, t0)


def replay(case):
    body(case, Stats())
