"""C10 — every derived rule proves exactly its advertised schema.

lib/schemas.py holds the advertised schema of each entry point of proofs/propositional.py and tautology.py (from the
docstrings).  Each is applied to Hypothesis-generated well-formed matching-logic patterns and premise thunks
(declared axioms of the required shape, or nested applications of other entries) and checked:
  * thunk.conc expands to exactly the schema instantiated at the arguments,
  * running the thunk on a StatefulInterpreter (after the module's gamma/claim phases) yields that conclusion,
  * the serialised module is accepted by the reference machine, whose rule journal contains only pattern constructors,
    Prop1-3, ModusPonens, Instantiate, Save/Load/Pop/Publish (loads of proofs = the module's published axioms).
Parametric entry points (conjunction_implies_nth, or/and_move_to_front, reduce_n_or_duplicates_at_front,
merge_clauses, prove_trivial_clause) have their own generators below.
"""
from __future__ import annotations

import io

from hypothesis import strategies as st

from lib import common, gens, histories as H, refmachine as M, refml as R, schemas as S
from lib.common import Stats, Violation

PROP = 'C10'
RULE = (
    'for each of the catalogue entries (lib/schemas.py) Hypothesis draws argument patterns (binders, applications, symbols, mu, '
    'constrained metavariables, pending substitutions, nested notation) and premises (declared axioms of the required shape or '
    'nested applications, depth <= 3); argument aliasing (the same pattern for several schema variables) in a share of the cases; the parametric entry points and the six match-based rules have their own generators. non-trivial = application with at least one non-metavariable argument containing a binder, '
    'application or notation; distinct by (entry, arguments)'
)
ASSUME = [
    'advertised schemas transcribed by hand from the docstrings into lib/schemas.py',
    'arguments are documented-well-formed patterns; reference machine (lib/refmachine.py) is the replay oracle',
    'imp_trans_match1/2, equiv_match_l/r, equiv_trans_match1/2 ("same as (imp|equiv)_transitivity but hN is instantiated to match"): premises are declared axioms related by an instantiation sigma of a substitution-free pattern B (closed in a third of the cases); expected conclusion = the transitivity schema with the matched premise instantiated by sigma restricted to the metavariables of B',
]
CFG = H.CFG
ALLOWED_RULES = {'EVar', 'SVar', 'Symbol', 'Implies', 'App', 'Mu', 'Exists', 'MetaVar', 'CleanMetaVar', 'ESubst', 'SSubst',
                 'Prop1', 'Prop2', 'Prop3', 'ModusPonens', 'Instantiate', 'Pop', 'Save', 'Load', 'Publish'}


class Sink(io.BytesIO):
    def close(self):
        pass


def interesting(t):
    k = t[0]
    if k in ('n', 'inst', 'E', 'M', 'a'): return True
    if k in ('e', 's', 'y', 'm'): return False
    return any(interesting(x) for x in t[1:] if isinstance(x, tuple))


def check_module(module, thunks, expected, descr, case, stats_classes):
    """Shared oracle: conc / stateful run / serialise + reference replay."""
    from proof_generation.claim import Claim
    from proof_generation.interpreter import ExecutionPhase
    from proof_generation.serializing_interpreter import SerializingInterpreter
    from proof_generation.stateful_interpreter import StatefulInterpreter

    for th, exp in zip(thunks, expected):
        got = R.from_repo(th.conc)
        if got != exp:
            raise Violation('%s: advertised conclusion (thunk.conc) is %s, the documented schema gives %s' % (descr, R.show(got), R.show(exp)), case, 'conc')
    module._claims = [th.conc for th in thunks]
    module._proof_expressions = list(thunks)
    claims = [Claim(c) for c in module._claims]
    it = StatefulInterpreter(ExecutionPhase.Gamma, list(claims))
    try:
        module.execute_gamma_phase(it)
        module.execute_claims_phase(it)
        results = [th(it) for th in thunks]
    except Exception as e:
        raise Violation('%s: replaying the proof on a StatefulInterpreter raised %s: %s' % (descr, type(e).__name__, str(e)[:300]), case, 'stateful-raise')
    for res, exp in zip(results, expected):
        if R.from_repo(res.conclusion) != exp:
            raise Violation('%s: the proof run concludes %s, the documented schema gives %s' % (descr, R.show(R.from_repo(res.conclusion)), R.show(exp)), case, 'run-conc')
    sinks = [Sink(), Sink(), Sink()]
    ser = SerializingInterpreter(ExecutionPhase.Gamma, sinks[0], [Claim(c) for c in module._claims], sinks[1], sinks[2])
    try:
        module.execute_full(ser)
    except Exception as e:
        raise Violation('%s: serialising the module raised %s: %s' % (descr, type(e).__name__, str(e)[:300]), case, 'serialize-raise')
    g, c, p = (s.getvalue() for s in sinks)
    res = M.verify(g, c, p)
    if res[0] != 'ACCEPT':
        raise Violation('%s: the serialised proof is rejected by the documented machine (%s)' % (descr, res[1]), dict(case, gamma=g.hex(), claim=c.hex(), proof=p.hex()), 'machine-reject')
    m = res[1]
    bad = set(m.rules) - ALLOWED_RULES
    if bad:
        raise Violation('%s: the proof uses %s (only Prop1-3, ModusPonens, Instantiate and declared axioms are allowed)' % (descr, sorted(bad)), case, 'rules')
    bij = R.SymbolBijection()
    if len(m.proved) != len(expected) or not all(bij.unify(e, t) for e, t in zip(expected, m.proved)):
        raise Violation('%s: the machine discharged %s, expected %s' % (descr, [R.show(t) for t in m.proved], [R.show(e) for e in expected]), case, 'machine-conc')
    return len(p)


PARAM_KINDS = ['conjunction_implies_nth', 'or_move_to_front', 'and_move_to_front', 'reduce_n', 'merge_clauses', 'trivial_clause']


MATCH_RULES = ['imp_trans_match1', 'imp_trans_match2', 'equiv_match_l', 'equiv_match_r', 'equiv_trans_match1', 'equiv_trans_match2']
CFG_M = gens.Cfg(ids=(0, 1, 2), nsyms=2, subst=False, constraints=False, meta_weight=5)
CFG_CLOSED = gens.Cfg(ids=(0, 1, 2), nsyms=2, meta=False, subst=False)


@st.composite
def match_cases(draw, which=None):
    """The match-based rules of the tautology library ("same as imp_transitivity / equiv_transitivity but hN is instantiated
    to match"): premise shapes related by an instantiation sigma of the substitution-free, possibly closed, pattern B."""
    which = which or draw(st.sampled_from(MATCH_RULES))

    def pat(cfg, d):
        for _ in range(4):
            t = gens.draw_sugared(draw, cfg, draw(st.integers(0, d)), H.pool()[0], False, H.pool()[2])
            if gens.sugared_well_formed(t, H.pool()[2]): return t
        return ('m', 0, (), (), (), (), ()) if cfg.meta else ('e', 0)

    closed_b = draw(st.integers(0, 2)) == 0
    B = pat(CFG_CLOSED if closed_b else CFG_M, 2)
    A = pat(CFG_M, 1); D = pat(CFG_M, 1)
    sigma = [(k, pat(draw(st.sampled_from([CFG_M, CFG_CLOSED])), 1)) for k in sorted(draw(st.sets(st.sampled_from((0, 1, 2)), max_size=3)))]
    return {'kind': 'match', 'which': which, 'A': A, 'B': B, 'D': D, 'sigma': sigma}


@st.composite
def cases(draw, only=None, param=None):
    kind = draw(st.integers(0, 19))
    if param is None and (only is not None or kind < 18):
        app = S.draw_app(draw, CFG, depth=draw(st.integers(1, 3)), only=only)
        return {'kind': 'app', 'app': app}
    which = param or draw(st.sampled_from(PARAM_KINDS))
    n = draw(st.integers(1, 3))  # proofs grow explosively with the number of terms (n = 5 takes minutes)
    terms = [S.draw_arg_pattern(draw, CFG, draw(st.integers(0, 1))) for _ in range(n)]
    # operands that themselves have the shape of the lemma's connective (written with the notation or unfolded)
    if which in ('conjunction_implies_nth', 'merge_clauses') and draw(st.booleans()):
        # (proofs of the move-to-front family grow too fast for compound operands; they keep plain ones)
        i = draw(st.sampled_from([n - 1, draw(st.integers(0, n - 1))]))
        x, y = S.draw_arg_pattern(draw, CFG, 0), S.draw_arg_pattern(draw, CFG, 0)
        terms[i] = draw(st.sampled_from([S.And(x, y), S.Or(x, y), S.Neg(S.I(x, S.Neg(y))), S.I(S.Neg(x), y), S.Neg(x)]))
    c = {'kind': 'param', 'which': which, 'terms': terms}
    if which == 'conjunction_implies_nth':
        c['n'] = draw(st.integers(0, n - 1))
    elif which in ('or_move_to_front', 'and_move_to_front'):
        c['pos'] = sorted(draw(st.sets(st.integers(0, n - 1), max_size=n)))
        c['warm'] = draw(st.booleans())
    elif which == 'reduce_n':
        c['n'] = draw(st.integers(0, n - 1))
    elif which == 'merge_clauses':
        c['right'] = S.draw_arg_pattern(draw, CFG, 1)
    else:
        lits = draw(st.lists(st.integers(1, 3), min_size=0, max_size=1))  # longer clauses give proofs of millions of steps
        v = draw(st.integers(1, 3))
        cl = [x if draw(st.booleans()) else -x for x in lits]
        i = draw(st.integers(0, len(cl))); cl.insert(i, v if draw(st.booleans()) else -v)
        j = draw(st.integers(0, len(cl))); cl.insert(j, -cl[i] if j > i else -cl[i + 0])
        c['clause'] = cl
    return c


def case_json(c):
    if c['kind'] == 'match':
        sj = gens.sugared_to_json
        return {'kind': 'match', 'which': c['which'], 'A': sj(c['A']), 'B': sj(c['B']), 'D': sj(c['D']), 'sigma': [[k, sj(v)] for k, v in c['sigma']]}
    if c['kind'] == 'app':
        return {'kind': 'app', 'app': c['app'].to_json()}
    out = dict(c)
    out['terms'] = [gens.sugared_to_json(t) for t in c['terms']]
    if 'right' in c: out['right'] = gens.sugared_to_json(c['right'])
    return out


def case_from_json(j):
    from lib import notations

    if j['kind'] == 'app':
        return {'kind': 'app', 'app': S.App.from_json(j['app'])}
    by_label = notations.registry()[1]
    if j['kind'] == 'match':
        sf = lambda t: gens.sugared_from_json(t, by_label)
        return {'kind': 'match', 'which': j['which'], 'A': sf(j['A']), 'B': sf(j['B']), 'D': sf(j['D']), 'sigma': [(k, sf(v)) for k, v in j['sigma']]}
    out = dict(j)
    out['terms'] = [gens.sugared_from_json(t, by_label) for t in j['terms']]
    if 'right' in j: out['right'] = gens.sugared_from_json(j['right'], by_label)
    return out


def foldr(op, xs):
    return xs[0] if len(xs) == 1 else op(xs[0], foldr(op, xs[1:]))


def body(c, stats: Stats):
    _, _, defs = H.pool()
    cj = case_json(c)
    if c['kind'] == 'app':
        app = c['app']
        try:
            module, prop, taut, thunks = S.make_module([app])
        except Exception as e:
            raise Violation('%s: building the proof expression raised %s: %s' % (app.describe(), type(e).__name__, str(e)[:300]), cj, 'build-raise')
        expected = [gens.expand_sugared(app.conclusion(), defs)]
        nt = any(interesting(v) for v in app.sigma.values())
        plen = check_module(module, thunks, expected, str(app.describe()), cj, None)
        stats.case(repr(cj), nt, ['entry-' + n for n in set(app.entries())] + ['depth-%d' % app.depth(), 'top-' + app.entry.name],
                   dict(app.describe(), proof_bytes=plen))
        return
    if c['kind'] == 'match':
        return match_body(c, cj, stats, defs)
    # parametric entry points
    from proof_generation.proof import ProofExp
    from proof_generation.tautology import Tautology
    import proof_generation.pattern as P

    module = ProofExp()
    taut = module.import_module(Tautology())
    terms = [gens.build_repo(t) for t in c['terms']]
    eterms = [gens.expand_sugared(t, defs) for t in c['terms']]
    which = c['which']
    n = len(terms)
    try:
        if which == 'conjunction_implies_nth':
            term = foldr(P._and, terms)
            th = taut.conjunction_implies_nth(term, c['n'], n)
            exp = R.I(foldr(R.AND, eterms), eterms[c['n']])
        elif which in ('or_move_to_front', 'and_move_to_front'):
            op = R.OR if which.startswith('or') else R.AND
            if c.get('warm'):
                # history: the sibling entry point was used first on the same library object with the same arguments
                sibling = 'and_move_to_front' if which.startswith('or') else 'or_move_to_front'
                getattr(taut, sibling)(list(c['pos']), terms)
            th = getattr(taut, which)(list(c['pos']), terms)
            moved = [eterms[i] for i in c['pos']] + [t for i, t in enumerate(eterms) if i not in c['pos']]
            exp = R.EQUIV(foldr(op, eterms), foldr(op, moved))
        elif which == 'reduce_n':
            k = c['n']
            ts = [terms[0]] * (k + 1) + terms[1:]
            ets = [eterms[0]] * (k + 1) + eterms[1:]
            th = taut.reduce_n_or_duplicates_at_front(k, ts)
            exp = R.EQUIV(foldr(R.OR, ets), foldr(R.OR, ets[k:]))
        elif which == 'merge_clauses':
            right = gens.build_repo(c['right']); er = gens.expand_sugared(c['right'], defs)
            th = taut.merge_clauses(foldr(P._or, terms), n, right)
            exp = R.EQUIV(R.OR(foldr(R.OR, eterms), er), foldr(R.OR, eterms + [er]))
        else:
            cl = c['clause']
            th = taut.prove_trivial_clause(cl)
            lit = lambda x: R.MV(x - 1) if x > 0 else R.NOT(R.MV(-x - 1))
            exp = foldr(R.OR, [lit(x) for x in cl])
    except Exception as e:
        raise Violation('%s(%s): building the proof expression raised %s: %s' % (which, {k: v for k, v in cj.items() if k not in ('kind',)}, type(e).__name__, str(e)[:300]), cj, 'build-raise')
    plen = check_module(module, [th], [exp], '%s %s' % (which, {k: v for k, v in cj.items() if k not in ('kind', 'terms')}), cj, None)
    stats.case(repr(cj), n >= 2 or which == 'trivial_clause', ['entry-' + which, 'param'], {'entry': which, 'terms': [gens.show_sugared(t) for t in c['terms']], 'proof_bytes': plen})


def match_body(c, cj, stats, defs):
    from proof_generation.proof import ProofExp
    from proof_generation.tautology import Tautology

    which = c['which']
    ex = lambda t: gens.expand_sugared(t, defs)
    eA, eB, eD = ex(c['A']), ex(c['B']), ex(c['D'])
    sig = {k: ex(v) for k, v in c['sigma']}
    sigB = {k: v for k, v in sig.items() if k in R.metavars(eB)}     # what matching B against B.sigma can (and must) find
    inst = lambda t, s_: R.instantiate(t, s_)
    sug_inst = lambda t: ('inst', t, tuple(c['sigma'])) if c['sigma'] else t
    eq = which.startswith('equiv')
    conn = S.Equiv if eq else S.I
    econn = R.EQUIV if eq else R.I
    if which in ('imp_trans_match1', 'equiv_trans_match1'):
        prem = [conn(c['A'], c['B']), conn(sug_inst(c['B']), c['D'])]; exp = econn(inst(eA, sigB), eD)
    elif which in ('imp_trans_match2', 'equiv_trans_match2'):
        prem = [conn(c['A'], sug_inst(c['B'])), conn(c['B'], c['D'])]; exp = econn(eA, inst(eD, sigB))
    elif which == 'equiv_match_l':
        prem = [conn(c['B'], c['D'])]; exp = econn(inst(eB, sigB), inst(eD, sigB))
    else:
        prem = [conn(c['D'], c['B'])]; exp = econn(inst(eD, sigB), inst(eB, sigB))
    module = ProofExp()
    taut = module.import_module(Tautology())
    rp = [gens.build_repo(t) for t in prem]
    descr = '%s(%s)' % (which, ', '.join(gens.show_sugared(t) for t in prem)) + ((' matched against ' + gens.show_sugared(sug_inst(c['B']))) if which.startswith('equiv_match') else '')
    try:
        for a_ in rp: module.add_axiom(a_)
        hs = [module.load_axiom(a_) for a_ in rp]
        if which.startswith('equiv_match'):
            th = getattr(taut, which)(hs[0], gens.build_repo(sug_inst(c['B'])))
        else:
            th = getattr(taut, which)(hs[0], hs[1])
    except Exception as e:
        raise Violation('%s: building the proof expression raised %s: %s' % (descr, type(e).__name__, str(e)[:300]), cj, 'build-raise')
    plen = check_module(module, [th], [exp], descr, cj, None)
    stats.case(repr(cj), True, ['entry-' + which, 'match-rule', 'match-closed-pattern' if not R.metavars(eB) else 'match-open-pattern'] + (['match-empty-solution'] if not sigB else []),
               {'entry': which, 'premises': [gens.show_sugared(t) for t in prem], 'proof_bytes': plen})


def shard(stats: Stats, shard_i, nshards, seed, tier):
    per_entry, mix = {'quick': (12, 60), 'thorough': (400, 2500)}[tier]
    # every catalogue entry gets its own budget (uniform coverage), then a random mix incl. parametric entry points
    for idx, ent in enumerate(S.catalogue()):
        if idx % nshards == shard_i:
            common.run_given(stats, common.derive_seed(seed, ent.name), per_entry, cases(only=ent), body)
            if stats.violations:
                return
    # the parametric entry points get their own budget too (cheap ones more)
    for idx, which in enumerate(PARAM_KINDS):
        if (idx + 7) % nshards == shard_i:
            budget = per_entry * (4 if which in ('conjunction_implies_nth', 'merge_clauses') else 1)
            common.run_given(stats, common.derive_seed(seed, which), budget, cases(param=which), body)
            if stats.violations:
                return
    for idx, which in enumerate(MATCH_RULES):
        if (idx + 3) % nshards == shard_i:
            common.run_given(stats, common.derive_seed(seed, which), per_entry * 3, match_cases(which), body)
            if stats.violations:
                return
    common.run_given(stats, seed, mix, cases(), body)


def corpus():
    import glob, json, os

    for f in sorted(glob.glob(os.path.join(common.VERIF, 'corpus', PROP, '*.json'))):
        j = json.load(open(f, encoding='utf-8'))
        yield j.get('case', j)


def run(tier, t0):
    stats = Stats()
    for case in corpus():
        try:
            body(case_from_json({k: v for k, v in case.items() if k not in ('gamma', 'claim', 'proof')}), stats)
        except Violation as v:
            stats.violation(v)
    common.run_sharded(stats, 'checks.c10', 'shard', common.NPROC, tier)
    ents = {k[6:]: v for k, v in stats.classes.items() if k.startswith('entry-')}
    missing = [e.name for e in S.catalogue() if e.name not in ents]
    if missing:
        stats.notes.append('catalogue entries not exercised in this run: %s' % missing)
    stats.notes.append('min applications per catalogue entry: %d' % min([ents.get(e.name, 0) for e in S.catalogue()]))
    return common.finish(PROP, tier, stats, RULE, ASSUME, t0)


def replay(case):
    body(case_from_json({k: v for k, v in case.items() if k not in ('gamma', 'claim', 'proof')}), Stats())
