"""C02 — every proof the toolkit generates is accepted by the checker.

(a) the shipped proof modules, (b) generated modules whose claims are proved by compositions of library lemmas
(lib/schemas.py), universal generalisation, Quantifier instances, the tautology prover and loaded axioms, over arbitrary
well-formed argument patterns and import trees.  Each is written by ProofExp.serialize (real code path, files) with and
without optimisation and judged by the real `checker` binary built from the working tree (exit status), the
include-based harness and the reference machine.
"""
from __future__ import annotations

import os
import shutil
import tempfile

from hypothesis import strategies as st

from lib import common, modules as MD, refmachine as M, refml as R, rustharness
from lib.common import Stats, Violation

PROP = 'C02'
RULE = (
    'shipped modules + Hypothesis-generated module descriptions (lib/modules.py, rich profile), each serialised with optimize off '
    'and on. non-trivial = module with >= 1 claim whose proof file contains >= 1 ModusPonens and >= 1 Instantiate; distinct by '
    'proof-file bytes'
)
ASSUME = [
    'generated argument patterns are documented-well-formed; instantiations admissible and capture-free (toolkit preconditions, DESIGN 2.3)',
    'a serialisation that raises (e.g. more than 256 memory slots) counts as refused by the toolkit, not as a violation of C02',
]
SHIPPED = ['Propositional', 'SmallTheory', 'Substitution', 'Tautology', 'Definedness', 'KoreLemmas']


def shipped(name):
    if name == 'Propositional':
        from proof_generation.proofs.propositional import Propositional as C
    elif name == 'SmallTheory':
        from proof_generation.proofs.small_theory import SmallTheory as C
    elif name == 'Substitution':
        from proof_generation.proofs.substitution import Substitution as C
    elif name == 'Tautology':
        from proof_generation.tautology import Tautology as C
    elif name == 'Definedness':
        from proof_generation.proofs.definedness import Definedness as C
    else:
        from proof_generation.proofs.kore import KoreLemmas as C
    return C()


def judge(module, case, descr, stats: Stats, classes):
    exe = rustharness.build_checker()
    d = tempfile.mkdtemp(prefix='c02_')
    try:
        for opt in (False, True):
            try:
                g, c, p = MD.serialize(module, d, 'mod%d' % int(opt), 'binary', opt)
            except (ValueError, OverflowError) as e:
                stats.excluded['refused-by-toolkit:%s' % type(e).__name__] += 1
                continue
            except Exception as e:
                stats.excluded['toolkit-refused-while-serialising:%s' % type(e).__name__] += 1
                continue
            base = os.path.join(d, 'mod%d' % int(opt))
            rc = rustharness.run_checker_files(base + '.ml-gamma', base + '.ml-claim', base + '.ml-proof', exe)
            ref = M.verify(g, c, p)
            m = ref[-1]
            nt = ref[0] == 'ACCEPT' and len(m.proved) >= 1 and m.rules['ModusPonens'] >= 1 and m.rules['Instantiate'] >= 1
            stats.case(p + b'|' + g, nt, classes + ['optimize-%s' % opt, 'claims-%d' % min(len(m.proved), 3)]
                       + (['memoised-load-in-claim-or-proof'] if opt and any(k == 'P' for _, (k, _) in m.loads) else [])
                       + (['has-Generalization'] if m.rules['Generalization'] else []) + (['has-ESubst'] if m.rules['ESubst'] else [])
                       + (['has-Quantifier'] if m.rules['Quantifier'] else []),
                       {'module': descr[:300], 'optimize': opt, 'proof_bytes': len(p), 'claims': [R.show(t) for t in m.proved][:3]})
            if rc != 0:
                line = rustharness.run_batch([(g, c, p)], mode=0)[0]
                raise Violation('%s optimize=%s: the toolkit wrote the proof but the checker rejects it (exit status %d; harness says %s; documented machine says %s%s)'
                                % (descr, opt, rc, line[:20], ref[0], (': ' + ref[1]) if ref[0] == 'REJECT' else ''),
                                dict(case, optimize=opt, gamma=g.hex(), claim=c.hex(), proof=p.hex()),
                                'checker-rejects:redundant-subst' if ref[0] == 'REJECT' and 'redundant' in ref[1] else 'checker-rejects')
            if ref[0] != 'ACCEPT':
                raise Violation('%s optimize=%s: the checker accepts but the documented machine rejects (%s)' % (descr, opt, ref[1]),
                                dict(case, optimize=opt, gamma=g.hex(), claim=c.hex(), proof=p.hex()), 'machine-rejects')
    finally:
        shutil.rmtree(d, ignore_errors=True)


def body(c, stats: Stats):
    import time as _t
    _t0 = _t.time()
    try:
        return _body(c, stats)
    finally:
        if _t.time() - _t0 > 8:
            stats.notes.append('slow case %.0fs: %s' % (_t.time() - _t0, [x['kind'] + ':' + str(x.get('app', {}).get('entry', x.get('f', ''))) for x in c.get('desc', {}).get('claims', [])]))


def _body(c, stats: Stats):
    if c['kind'] == 'shipped':
        module = shipped(c['name'])
        judge(module, c, 'shipped module %s' % c['name'], stats, ['shipped'])
        return
    if c['kind'] == 'scale':
        judge(scale_module(c['scale']), c, 'theory of %(n)d axioms (%(shape)s), claims = axioms %(picks)s, lemma=%(lemma)s' % c['scale'], stats, ['scale-theory'])
        return
    desc = c['desc']
    try:
        module, built = MD.build_module(desc)
    except Exception as e:
        # the toolkit itself does not accept this proof expression: outside C02 (C10 judges the library lemmas)
        stats.excluded['toolkit-refused-while-building:%s' % type(e).__name__] += 1
        return
    kinds = sorted({x['kind'] for x in desc.get('claims', [])})
    judge(module, c, 'generated module (claims by %s, %d modules)' % (kinds, len(built.by_name)), stats, ['generated'] + ['claim-' + k for k in kinds])


def scale_module(sc):
    """A theory with many axioms (memory indices close to the 256 slots a Load can address, many memoisation candidates),
    a few of them claimed and proved by loading them, optionally next to a lemma of the propositional library."""
    import proof_generation.pattern as P
    from proof_generation.proof import ProofExp
    from proof_generation.proofs.propositional import Propositional

    n, shape = sc['n'], sc['shape']
    syms = [P.Symbol('c%d' % i) for i in range(n)]
    if shape == 'twice': axioms = [P.App(x, x) for x in syms]
    elif shape == 'chain': axioms = [P.App(syms[i], syms[(i + 1) % n]) for i in range(n)]
    else: axioms = [P.Implies(x, P.App(x, syms[0])) for x in syms]
    module = ProofExp(axioms=list(axioms), claims=[])
    thunks = [module.load_axiom(axioms[i % n]) for i in sc['picks']]
    if sc.get('lemma'):
        prop = module.import_module(Propositional())
        thunks.append(prop.imp_refl(axioms[sc['picks'][0] % n]))
    module._claims = [th.conc for th in thunks]
    module._proof_expressions = list(thunks)
    return module


@st.composite
def cases(draw):
    if draw(st.integers(0, 15)) == 0:
        n = draw(st.sampled_from([40, 80, 84, 85, 86, 87, 90, 100, 120, 127, 128, 200, 250]))
        return {'kind': 'scale', 'scale': {'n': n, 'shape': draw(st.sampled_from(['twice', 'chain', 'imp'])), 'lemma': draw(st.booleans()),
                                           'picks': sorted(set([0, n - 1] + draw(st.lists(st.integers(0, n - 1), max_size=2))))}}
    return {'kind': 'generated', 'desc': draw(MD.module_descs(with_apps=True, rich=True, sym_pool=('a', 'b', 'c')))}


def shard(stats: Stats, shard_i, nshards, seed, tier):
    n = {'quick': 110, 'thorough': 2500}[tier]
    for i, name in enumerate(SHIPPED):
        if i % nshards == shard_i:
            try:
                body({'kind': 'shipped', 'name': name}, stats)
            except Violation as v:
                stats.violation(v)
                return
    common.run_given(stats, seed, n, cases(), body)


def corpus():
    import glob, json

    for f in sorted(glob.glob(os.path.join(common.VERIF, 'corpus', PROP, '*.json'))):
        j = json.load(open(f, encoding='utf-8'))
        yield j.get('case', j)


def _clean(case):
    return {k: v for k, v in case.items() if k not in ('optimize', 'gamma', 'claim', 'proof')}


def run(tier, t0):
    stats = Stats()
    rustharness.build_harness(); rustharness.build_checker()
    for case in list(corpus()):
        try:
            body(_clean(case), stats)
        except Violation as v:
            stats.violation(v)
    common.run_sharded(stats, 'checks.c02', 'shard', common.NPROC, tier)
    return common.finish(PROP, tier, stats, RULE, ASSUME, t0)


def replay(case):
    body(_clean(case), Stats())
