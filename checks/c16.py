"""C16 — valid Metamath proofs translate to checkable proofs of the same statement.

Generated databases in the dialect the converter hard-codes (lib/mmgen.py), each with a random derivation emitted in three
compression layouts and verified first by the reference Metamath verifier (lib/refmm.py).  translate.main() (the real entry
point, writing files) must succeed; the reference machine's publish journal must show the structural image of the target
statement as the claim and the images of the database's |- axioms and rules (rules as nested implications) as the theory;
the real checker must accept; all layouts must agree.  The shipped *-goal benchmarks are fixed cases.
"""
from __future__ import annotations

import contextlib
import io
import json
import os
import shutil
import subprocess
import sys
import tempfile

from hypothesis import strategies as st

from lib import common, mmgen, refmachine as M, refml as R, refmm, rustharness
from lib.common import Stats, Violation

PROP = 'C16'
RULE = (
    'Hypothesis-generated databases (constants, n-ary constructors, optional \\app, declared notations, |- axioms, rules with 1-3 '
    'essential hypotheses, proof rules prop-1/prop-2/mp, one $p target with 0-3 metavariables) x random derivations (depth <= 3) x '
    '3 compression layouts (no Z / Z on every repeated subproof / random Z); a sample additionally in child processes under other '
    'hash seeds. non-trivial = derivation with >= 1 rule with essential hypotheses, >= 1 modus ponens and >= 1 Z-reused step, or a '
    'target with >= 2 metavariables; distinct by database text'
)
ASSUME = [
    'generated databases are verified by lib/refmm.py before use (generator soundness)',
    'structural image: \\imp -> implication, \\app -> application, declared notation expanded, other constants -> left-nested symbol applications, phK -> metavariable; compared modulo a global injective symbol numbering and a per-statement injective metavariable renaming',
]
BENCHMARKS = ['impreflex-compressed-goal', 'transfer-simple-compressed-goal', 'perceptron-goal', 'svm5-goal']


def image(g, t):
    if isinstance(t, str):
        kind = getattr(g, 'kinds', {}).get(t)
        if kind == 'amb': return ('v', t)      # #Variable: an element or a set variable (the converter's choice), consistently
        if kind == 'e': return ('e', t)
        if kind == 's': return ('s', t)
        if kind == 'sym': return R.Y(t)
        return R.MV(int(t[2:]))
    head = t[0]
    if head == '\\imp': return R.I(image(g, t[1]), image(g, t[2]))
    if head == '\\app': return R.A(image(g, t[1]), image(g, t[2]))
    if head in g.notations:
        args, body = g.notations[head]
        sub = dict(zip(args, t[1:]))
        return image(g, mmgen.tsub(body, sub))
    p = R.Y(head)
    for a in t[1:]:
        p = R.A(p, image(g, a))
    return p


def rule_image(g, hyps, concl):
    p = image(g, concl)
    for h in reversed(hyps):
        p = R.I(image(g, h), p)
    return p


class Bij(R.SymbolBijection):
    """symbols: global injective map; metavariables: injective map reset per statement"""

    def __init__(self):
        super().__init__()
        self.mf = {}; self.mb = {}
        self.vf = {}; self.vb = {}

    def new_statement(self):
        self.mf = {}; self.mb = {}
        self.vf = {}; self.vb = {}

    def unify(self, a, b):
        if a[0] in ('v', 'e', 's') and isinstance(a[1], str):
            # object variables: per-statement map, injective within each kind; distinct database variables stay distinct
            if b[0] not in ('e', 's') or (a[0] != 'v' and a[0] != b[0]): return False
            if a[1] in self.vf: return self.vf[a[1]] == b[:2]
            if b[:2] in self.vb: return False
            self.vf[a[1]] = b[:2]; self.vb[b[:2]] = a[1]
            return True
        if a[0] == 'm' and b[0] == 'm':
            if a[2:] != b[2:]: return False
            if a[1] in self.mf: return self.mf[a[1]] == b[1]
            if b[1] in self.mb: return False
            self.mf[a[1]] = b[1]; self.mb[b[1]] = a[1]
            return True
        return super().unify(a, b)


def translate_inprocess(text, d):
    from proof_generation.metamath import translate

    path = os.path.join(d, 'db.mm')
    with open(path, 'w') as f:
        f.write(text)
    out = os.path.join(d, 'out')
    shutil.rmtree(out, ignore_errors=True)
    old = sys.argv
    sys.argv = ['translate', path, out, 'goal']
    try:
        with contextlib.redirect_stdout(io.StringIO()):
            translate.main()
    finally:
        sys.argv = old
    return [open(os.path.join(out, 'db.' + e), 'rb').read() for e in ('ml-gamma', 'ml-claim', 'ml-proof')]


def translate_child(path, out, hashseed):
    env = dict(os.environ, PYTHONHASHSEED=str(hashseed), PYTHONPATH=common.REPO_SRC)
    return subprocess.run([sys.executable, '-m', 'proof_generation.metamath.translate', path, out, 'goal'], capture_output=True, text=True, env=env)


def judge_files(files, case, what):
    g, c, p = files
    res = M.verify(g, c, p)
    return res


@st.composite
def cases(draw):
    rnd = mmgen.DrawRnd(draw)
    # half of the databases also declare #Variable / #ElementVariable / #SetVariable / #Symbol variables and |- axioms over them
    g, goal, rpn, texts = mmgen.make(rnd, extras=draw(st.booleans()))
    return {'gen': g, 'goal': goal, 'rpn': rpn, 'texts': texts, 'child_seed': draw(st.sampled_from([None, None, None, 1, 2, 3, 77]))}


def case_json(c):
    return {'texts': c['texts'], 'goal': mmgen.tstr(c['goal']), 'child_seed': c.get('child_seed')}


def body(c, stats: Stats):
    g, goal, rpn, texts = c['gen'], c['goal'], c['rpn'], c['texts']
    cj = case_json(c)
    for zm, t in texts.items():
        try:
            refmm.parse_and_verify(t)
        except Exception as e:
            stats.excluded['generator-produced-invalid-database'] += 1
            stats.notes.append('generator unsound: %s' % str(e)[:100])
            return
    A = g.assertions()
    exp_axioms = [rule_image(g, [], t) for l, t in g.axioms.items()] + [rule_image(g, hs, t) for l, (hs, t) in g.rules.items()] \
        + [image(g, t) for _, t in getattr(g, 'extra_axioms', [])]
    has_kinds = bool(getattr(g, 'kinds', None))
    cj['exp_axioms'] = exp_axioms   # (JSON) so that a replay applies the image oracle without the generator object
    exp_claim = image(g, goal)
    cj['exp_claim'] = exp_claim
    nvars = len(mmgen.tvars(goal))
    uses_rule = any(l in g.rules for l in rpn)
    uses_mp = 'proof-rule-mp' in rpn
    journals = {}
    d = tempfile.mkdtemp(prefix='c16_')
    try:
        exe = rustharness.build_checker()
        for zm, t in texts.items():
            has_z = 'Z' in t.split('$=')[-1].split(')')[-1]
            try:
                files = translate_inprocess(t, d)
            except BaseException as e:
                if isinstance(e, (KeyboardInterrupt,)): raise
                import traceback

                tb = traceback.extract_tb(e.__traceback__)
                loc = [f for f in tb if '/proof_generation/' in f.filename]
                raise Violation('translation of a valid database failed (layout %s): %s: %s at %s\n%s'
                                % (zm, type(e).__name__, str(e)[:200], '%s:%s' % (os.path.basename(loc[-1].filename), loc[-1].name) if loc else '?', t),
                                dict(cj, layout=zm), 'translate-fail:%s:%s' % (type(e).__name__, loc[-1].name if loc else '?'))
            res = M.verify(*files)
            base = os.path.join(d, 'out', 'db')
            rc = rustharness.run_checker_files(base + '.ml-gamma', base + '.ml-claim', base + '.ml-proof', exe)
            nt = (uses_rule and uses_mp and has_z) or nvars >= 2
            stats.case(t, nt, ['layout-' + zm, 'vars-%d' % nvars] + (['uses-rule'] if uses_rule else []) + (['uses-mp'] if uses_mp else []) + (['has-Z'] if has_z else []) + (['variable-kinds'] if has_kinds else []),
                       {'goal': mmgen.tstr(goal), 'layout': zm, 'proof': t.split('$=')[-1].strip()[:120], 'rpn_steps': len(rpn)})
            if rc != 0:
                raise Violation('the checker rejects the translated proof (layout %s; documented machine: %s %s)\n%s'
                                % (zm, res[0], res[1] if res[0] == 'REJECT' else '', t), dict(cj, layout=zm), 'checker-rejects')
            if res[0] != 'ACCEPT':
                raise Violation('checker accepts but the documented machine rejects the translated proof (%s)\n%s' % (res[1], t), dict(cj, layout=zm), 'machine-rejects')
            m = res[1]
            bij = Bij()
            ok = len(m.claimed) == 1
            if ok:
                bij.new_statement(); ok = bij.unify(exp_claim, m.claimed[0])
            if not ok:
                raise Violation('published claim %s is not the image %s of the target statement |- %s\n%s'
                                % ([R.show(x) for x in m.claimed], sh(exp_claim), mmgen.tstr(goal), t), dict(cj, layout=zm), 'claim-image')
            ok = len(m.axioms) == len(exp_axioms)
            if ok:
                for e, a in zip(exp_axioms, m.axioms):
                    bij.new_statement()
                    if not bij.unify(e, a): ok = False; break
            if not ok:
                raise Violation('published axioms %s are not the images %s of the database axioms and rules\n%s'
                                % ([R.show(x) for x in m.axioms], [sh(x) for x in exp_axioms], t), dict(cj, layout=zm), 'axiom-images')
            journals[zm] = (m.axioms, m.claimed, m.proved)
        if len({repr(v) for v in journals.values()}) > 1:
            raise Violation('compression layouts give different published theories/claims', cj, 'layout-differs')
        if c.get('child_seed') is not None:
            path = os.path.join(d, 'db.mm')
            with open(path, 'w') as f:
                f.write(texts['all'])
            out = os.path.join(d, 'out_child')
            r = translate_child(path, out, c['child_seed'])
            stats.case(('child', texts['all'], c['child_seed']), nvars >= 2, ['child-process', 'hashseed-%s' % c['child_seed']])
            if r.returncode != 0:
                raise Violation('translation fails in a fresh process with PYTHONHASHSEED=%s: %s\n%s' % (c['child_seed'], r.stderr.strip().splitlines()[-1][:200] if r.stderr else '', texts['all']),
                                dict(cj, layout='all'), 'child-translate-fail')
            base = os.path.join(out, 'db')
            rc = rustharness.run_checker_files(base + '.ml-gamma', base + '.ml-claim', base + '.ml-proof', exe)
            if rc != 0:
                raise Violation('the checker rejects the proof translated under PYTHONHASHSEED=%s\n%s' % (c['child_seed'], texts['all']), dict(cj, layout='all'), 'child-checker-rejects')
    finally:
        shutil.rmtree(d, ignore_errors=True)


def benchmark(name, stats: Stats):
    src = os.path.join(common.REPO, 'generation', 'mm-benchmarks', name + '.mm')
    if not os.path.exists(src) or os.path.getsize(src) == 0:
        stats.excluded['benchmark-missing:' + name] += 1
        return
    d = tempfile.mkdtemp(prefix='c16b_')
    try:
        out = os.path.join(d, 'out')
        r = translate_child(src, out, 0)
        stats.case(('bench', name), True, ['benchmark'], {'benchmark': name})
        if r.returncode != 0:
            raise Violation('translating shipped benchmark %s failed: %s' % (name, r.stderr.strip().splitlines()[-1][:300] if r.stderr else ''), {'benchmark': name}, 'benchmark-translate')
        base = os.path.join(out, name)
        rc = rustharness.run_checker_files(base + '.ml-gamma', base + '.ml-claim', base + '.ml-proof')
        if rc != 0:
            raise Violation('the checker rejects the translation of shipped benchmark %s' % name, {'benchmark': name}, 'benchmark-checker')
    finally:
        shutil.rmtree(d, ignore_errors=True)


def shard(stats: Stats, shard_i, nshards, seed, tier):
    n = {'quick': 35, 'thorough': 1200}[tier]
    for i, b in enumerate(BENCHMARKS):
        if i % nshards == shard_i:
            try:
                benchmark(b, stats)
            except Violation as v:
                stats.violation(v)
                return
    common.run_given(stats, seed, n, cases(), body)


def sh(p):
    """R.show for expected images (object variables carry their database names)"""
    def cv(q):
        if q[0] in ('v', 'e', 's') and isinstance(q[1], str): return ('y', '%s:%s' % ({'v': 'var', 'e': 'evar', 's': 'svar'}[q[0]], q[1]))
        if q[0] in ('i', 'a'): return (q[0], cv(q[1]), cv(q[2]))
        return q
    return R.show(cv(p))


def _tup(x):
    return tuple(_tup(y) for y in x) if isinstance(x, list) else x


def replay_texts(case):
    """Replay without the generator object: translation success + checker acceptance + layouts agree (image oracle needs the generator)."""
    d = tempfile.mkdtemp(prefix='c16r_')
    try:
        for zm, t in case['texts'].items():
            try:
                files = translate_inprocess(t, d)
            except BaseException as e:
                if isinstance(e, KeyboardInterrupt): raise
                raise Violation('translation failed (layout %s): %s: %s' % (zm, type(e).__name__, str(e)[:200]), case, 'translate-fail')
            res = M.verify(*files)
            if res[0] != 'ACCEPT':
                raise Violation('documented machine rejects translated proof (layout %s): %s' % (zm, res[1]), case, 'machine-rejects')
            base = os.path.join(d, 'out', 'db')
            if rustharness.run_checker_files(base + '.ml-gamma', base + '.ml-claim', base + '.ml-proof') != 0:
                raise Violation('checker rejects translated proof (layout %s)' % zm, case, 'checker-rejects')
            if 'exp_axioms' in case:
                m = res[1]; bij = Bij()
                exp_claim = _tup(case['exp_claim']); exp_axioms = [_tup(a) for a in case['exp_axioms']]
                bij.new_statement()
                if len(m.claimed) != 1 or not bij.unify(exp_claim, m.claimed[0]):
                    raise Violation('published claim %s is not the image %s of the target statement' % ([R.show(x) for x in m.claimed], sh(exp_claim)), case, 'claim-image')
                ok = len(m.axioms) == len(exp_axioms)
                if ok:
                    for e, a in zip(exp_axioms, m.axioms):
                        bij.new_statement()
                        if not bij.unify(e, a): ok = False; break
                if not ok:
                    raise Violation('published axioms %s are not the images %s of the database axioms and rules'
                                    % ([R.show(x) for x in m.axioms], [sh(x) for x in exp_axioms]), case, 'axiom-images')
        if case.get('child_seed') is not None:
            path = os.path.join(d, 'db.mm')
            open(path, 'w').write(case['texts']['all'])
            r = translate_child(path, os.path.join(d, 'oc'), case['child_seed'])
            if r.returncode != 0:
                raise Violation('translation fails under PYTHONHASHSEED=%s' % case['child_seed'], case, 'child-translate-fail')
    finally:
        shutil.rmtree(d, ignore_errors=True)


def run(tier, t0):
    import glob

    stats = Stats()
    rustharness.build_checker()
    for f in sorted(glob.glob(os.path.join(common.VERIF, 'corpus', PROP, '*.json'))):
        j = json.load(open(f, encoding='utf-8'))
        try:
            replay_texts(j.get('case', j))
            stats.case(f, False, ['corpus'])
        except Violation as v:
            stats.violation(v)
    common.run_sharded(stats, 'checks.c16', 'shard', common.NPROC, tier)
    return common.finish(PROP, tier, stats, RULE, ASSUME, t0)


def replay(case):
    if 'benchmark' in case:
        benchmark(case['benchmark'], Stats())
        return
    replay_texts(case)
