"""C01 — checker soundness: every accepted theorem is semantically valid.

Instruction streams from the typed builder (lib/streams.py: arbitrary pattern operands over a small alphabet so that capture,
shadowing and constraint clashes are frequent; REFL / WEAKEN / MP-ready gadgets give real theorems for Generalization,
Substitution and Instantiate to act on; gamma is empty or drawn from a library of valid schemas) are executed by the real
checker code (include-based harness).  Every term the checker marks proved (final stack, memory, discharged claims) is
evaluated in finite models on admissible concrete instances; a proved term that is not even a well-formed pattern is a
violation of its own kind.  The reference machine is *not* the oracle here.
"""
from __future__ import annotations

from hypothesis import strategies as st

from lib import common, gens, refmachine as M, refml as R, refsem, rustharness, streams
from lib.common import Stats, Violation

PROP = 'C01'
RULE = (
    'Hypothesis-generated gamma/claim/proof streams (typed builder, <= 12 gadget steps, ids 0..2); accepted streams only are judged. '
    'Each proved term is instantiated by up to 4 admissible concrete instances (constraint-respecting by construction, capturing ones '
    'skipped and counted) and evaluated in all models of small interpretation spaces and sampled models of carrier <= 3, all / sampled '
    'valuations. non-trivial = accepted stream whose proved set contains a theorem obtained through ModusPonens, Generalization, '
    'Substitution or Instantiate; distinct by the set of proved conclusions'
)
ASSUME = [
    'finite-model semantics lib/refsem.py (textbook); carrier <= 3, application tables sampled when the space exceeds 4096 interpretations',
    'valid-theory library: propositional tautology schemas, exists x.x, x -> exists y.y (valid in every model)',
]
CFG = gens.Cfg(ids=(0, 1, 2), nsyms=2)
GAMMA_LIB = [
    R.I(R.PHI0, R.PHI0),
    R.I(R.I(R.PHI0, R.PHI1), R.I(R.NOT(R.PHI1), R.NOT(R.PHI0))),
    R.TOP,
    R.EX(0, R.E(0)),
    R.I(R.E(0), R.EX(1, R.E(1))),
    R.I(R.BOT, R.MV(1, (0,), (), (), ())),
    R.I(R.AND(R.PHI0, R.PHI1), R.PHI0),
]


@st.composite
def programs(draw):
    n_ax = draw(st.integers(0, 2))
    axioms = [draw(st.sampled_from(GAMMA_LIB)) for _ in range(n_ax)]
    # a third of the gadgets may end the program with a step the *documented* machine rejects: those are exactly the
    # programs an unsound checker would accept, so they must be frequent (the proved terms left on the stack are judged)
    g, c, p, tags = streams.draw_program(draw, CFG, axioms, max_steps=12, reject_rate=15)
    seeds = [draw(st.integers(0, 2 ** 40)) for _ in range(2)]
    return {'g': g.hex(), 'c': c.hex(), 'p': p.hex(), 'tags': tags, 'model_seed': seeds}


class Rng:
    """small deterministic generator for model sampling, seeded from the (Hypothesis-drawn) case"""

    def __init__(self, seed):
        self.s = seed or 1

    def __call__(self, lo, hi):
        self.s = (self.s * 6364136223846793005 + 1442695040888963407) & ((1 << 64) - 1)
        return lo + (self.s >> 33) % (hi - lo + 1)


def draw_admissible(rng, mv, depth=2):
    """concrete pattern satisfying mv's declared constraints (construction by repair, as gens.draw_admissible_concrete)"""
    def pat(d):
        k = rng(0, 7) if d > 0 else rng(0, 2)
        if k == 0: return R.E(rng(0, 2))
        if k == 1: return R.S(rng(0, 2))
        if k == 2: return R.Y(rng(0, 1))
        if k in (3, 4): return R.I(pat(d - 1), pat(d - 1))
        if k == 5: return R.A(pat(d - 1), pat(d - 1))
        if k == 6: return R.EX(rng(0, 2), pat(d - 1))
        body = pat(d - 1)
        ok = [v for v in (0, 1, 2) if -1 not in R.polarities(body, v)]
        return R.MU(ok[rng(0, len(ok) - 1)], body) if ok else body

    g = pat(depth)
    for x in mv[2]:
        if x in R.free_evars(g): g = R.EX(x, g)
    bad = set(mv[3])
    for x in mv[4]:
        if -1 in R.polarities(g, x): bad.add(x)
    for x in mv[5]:
        if 1 in R.polarities(g, x): bad.add(x)
    for x in bad:
        if x in R.free_svars(g): g = R.apply_ssubst(g, x, R.Y(0))
    assert gens.admissible_for(mv, g)
    return g


def judge_term(t, rng, stats, where):
    """-> None or (message, detail)"""
    instances = []
    if R.is_concrete(t):
        instances.append((t, {}))
    else:
        nodes = {}
        for nd in R.metavar_nodes(t): nodes.setdefault(nd[1], []).append(nd)
        for _ in range(3):
            sigma = {}
            for i, nds in nodes.items():
                merged = ('m', i, tuple(sorted({x for n in nds for x in n[2]})), tuple(sorted({x for n in nds for x in n[3]})),
                          tuple(sorted({x for n in nds for x in n[4]})), tuple(sorted({x for n in nds for x in n[5]})), ())
                sigma[i] = draw_admissible(rng, merged, rng(0, 2))
            try:
                inst = R.instantiate(t, sigma, mode='check')
            except R.Capture:
                stats.excluded['capturing-instance-skipped'] += 1
                continue
            if not R.is_concrete(inst):
                continue
            instances.append((inst, sigma))
    for inst, sigma in instances:
        if not R.concrete_wf(inst):
            return ('the checker proved %s whose %s is not a well-formed pattern (a mu binds a variable occurring negatively)'
                    % (R.show(t), 'instance %s' % R.show(inst) if sigma else 'statement'), {'instance': R.show(inst)})
        cm = refsem.find_countermodel(inst, rng, tries=10)
        stats.classes['instances-evaluated'] += 1
        if cm is not None:
            return ('the checker proved %s but %s is not valid: counter-model %s'
                    % (R.show(t), ('its admissible instance %s (with %s)' % (R.show(inst), {k: R.show(v) for k, v in sigma.items()})) if sigma else 'it', cm),
                    {'instance': R.show(inst), 'countermodel': cm})
    return None


def body(c, stats: Stats):
    g, cl, p = bytes.fromhex(c['g']), bytes.fromhex(c['c']), bytes.fromhex(c['p'])
    line = rustharness.run_batch([(g, cl, p)], mode=0)[0]
    tags = c.get('tags', [])
    if not line.startswith('ACCEPT'):
        stats.case(None, False, ['rejected-by-checker'] + [t for t in tags if t.startswith('ends-rejected')])
        return
    stack, memory, _ = M.parse_dump(line)
    proved = [t for k, t in stack + memory if k == 'T']
    # discharged claims: decode the claim file (pattern construction only)
    dec = M.Machine()
    try:
        dec.run(g, M.GAMMA); dec.next_phase(); dec.run(cl, M.CLAIM)
        proved += list(dec.claimed)
        axioms = list(dec.axioms)
    except M.Reject:
        axioms = []
    derived = [t for t in proved if t not in axioms and t not in (R.PROP1, R.PROP2, R.PROP3, R.QUANT, R.EXISTENCE)]
    ops = set(M.OPNAMES[o] for o, _ in M.decode(p)) if p else set()
    used = ops & {'ModusPonens', 'Generalization', 'Substitution', 'Instantiate'}
    nt = bool(derived) and bool(used)
    cls = ['accepted'] + ['has-' + u for u in sorted(used)] + (['Gen-then-Subst'] if {'Generalization', 'Substitution'} <= ops else []) \
        + (['schematic-with-constraint'] if any(any(nd[2:6]) for t in derived for nd in R.metavar_nodes(t)) else []) + ['gadget-' + t for t in tags if t in ('REFL', 'WEAKEN', 'MP-ready', 'Quantifier-inst')]
    stats.case(tuple(sorted(map(repr, set(derived)))), nt, cls, {'proof': c['p'][:160], 'proved': [R.show(t) for t in derived][:4]})
    rng = Rng(c['model_seed'][0])
    for t in set(proved):
        bad = judge_term(t, rng, stats, c)
        if bad:
            raise Violation(bad[0] + ' [gamma=%s claim=%s proof=%s]' % (c['g'], c['c'], c['p']), dict(c, detail=bad[1]), 'unsound')


def shard(stats: Stats, shard_i, nshards, seed, tier):
    n = {'quick': 350, 'thorough': 12000}[tier]
    common.run_given(stats, seed, n, programs(), body)


def run(tier, t0):
    import glob, json, os

    stats = Stats()
    rustharness.build_harness()
    for f in sorted(glob.glob(os.path.join(common.VERIF, 'corpus', PROP, '*.json'))):
        j = json.load(open(f, encoding='utf-8'))
        try:
            body(j.get('case', j), stats)
        except Violation as v:
            stats.violation(v)
    common.run_sharded(stats, 'checks.c01', 'shard', common.NPROC, tier)
    return common.finish(PROP, tier, stats, RULE, ASSUME, t0)


def replay(case):
    body(case, Stats())
