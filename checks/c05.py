"""C05 — the checker implements the documented machine.

Differential: reference machine (lib/refmachine.py, from docs/proof-language.md) vs the checker
(include-based harness around rust/src/lib.rs; the real `checker` binary on a sample).
Parts
  short     exhaustive byte strings up to a length bound over the opcode alphabet, in each phase, after preset prefixes
  gen       programs from the typed stream builder (accepted and deliberately rejected ones)
  mut       mutations of generated programs: flip, delete, insert, duplicate, truncate, splice, operand +-1
  binary    exit status of the real binary on a sample of the above
"""
from __future__ import annotations

import itertools
import os
import shutil
import tempfile

from hypothesis import strategies as st

from lib import common, gens, refmachine as M, refml as R, rustharness, streams
from lib.common import Stats, Violation

PROP = 'C05'
RULE = (
    'exhaustive short byte strings over the opcode alphabet in each phase after preset prefixes + Hypothesis-generated '
    'typed programs + byte mutations of them; every case is run by the reference machine and by the checker and the '
    'verdict plus (on acceptance) stack, memory and outstanding claims are compared. non-trivial = at least one '
    'instruction beyond atom pushes executed before the verdict; distinct by the three byte strings'
)
ASSUME = [
    'reference machine transcribed from docs/proof-language.md with the conventions listed in DESIGN.md 2.1 (trusted)',
    'axiom schemas the document leaves unspecified (PropagationOr, PropagationExists, PreFixpoint, Singleton, Frame, KnasterTarski) are rejected',
]
CFG = gens.Cfg(ids=(0, 1, 2), nsyms=2, holes=True)

ALPHABET = list(range(2, 31)) + [137, 0, 1, 31, 255, 127, 128]
PREFIXES = {
    'empty': b'',
    'patterns': bytes([137, 0, 2, 1, 3, 0, 9, 1, 1, 0, 1, 1, 0, 0, 0]),        # phi0, x1, X0, phi1{ef x0, sf X1}
    'proofs': bytes([2, 0, 12, 13, 28]) + streams.refl_stream(R.E(0)) + bytes([28]),  # x0, prop1, prop2 (saved), |- x0->x0 (saved)
    'mixed': bytes([137, 0, 2, 1, 137, 0, 10, 0, 28, 3, 1, 7, 1, 28, 19, 28, 15]),  # phi0[x1/x0] saved, mu X1.X1 saved, existence saved, quantifier
}


def reason_class(r):
    return r.split(':')[0].split(' ')[0] if r else ''


def compare(stats: Stats, cases, part, classes_of=None, sample_every=997):
    """cases: list of (g, c, p).  Runs harness (mode 0 and mode 1) and reference; records violations."""
    if not cases:
        return
    lines0 = rustharness.run_batch(cases, mode=0)
    lines1 = rustharness.run_batch(cases, mode=1)
    for idx, (case, l0, l1) in enumerate(zip(cases, lines0, lines1)):
        g, c, p = case
        ref = M.verify(g, c, p)
        exp0 = M.dump(ref)
        pre = M.run_prefix(g, c, p)
        exp1 = M.dump(pre, with_claims=True)
        m = ref[-1]
        cls = [part, 'accepted' if ref[0] == 'ACCEPT' else 'rejected:' + reason_class(ref[1])]
        if classes_of:
            cls += classes_of(idx)
        stats.case((g, c, p), m.executed > 0, cls,
                   {'part': part, 'gamma': g.hex(), 'claim': c.hex(), 'proof': p.hex(), 'reference': exp0[:160]} if idx % sample_every == 0 else None)
        if l0 != exp0 or l1 != exp1:
            which = 'verify' if l0 != exp0 else 'state'
            stats.violation(Violation(
                '[%s] checker and documented machine disagree (%s) on gamma=%s claim=%s proof=%s: checker %s, reference %s%s'
                % (part, which, g.hex(), c.hex(), p.hex(), (l0 if l0 != exp0 else l1)[:300], (exp0 if l0 != exp0 else exp1)[:300],
                   (' (' + ref[1] + ')') if ref[0] == 'REJECT' else ''),
                {'part': part, 'gamma': g.hex(), 'claim': c.hex(), 'proof': p.hex()}, 'diff-' + which))
            return


def short_shard(stats: Stats, shard_i, nshards, seed, tier):
    maxlen = 3
    combos = []
    for pname, prefix in PREFIXES.items():
        for phase in (0, 1, 2):
            combos.append((pname, prefix, phase))
    strings = []
    for n in range(0, maxlen + 1):
        strings.extend(itertools.product(ALPHABET, repeat=n))
    if tier == 'thorough':
        # length 4 for the two richest prefixes (sharded), full alphabet
        extra = itertools.product(ALPHABET, repeat=4)
    work = []
    k = 0
    for pname, prefix, phase in combos:
        for s in strings:
            if k % nshards == shard_i:
                work.append((pname, prefix, phase, bytes(s)))
            k += 1
    if tier == 'thorough':
        for pname in ('proofs', 'mixed'):
            for phase in (0, 2):
                for s in itertools.product(ALPHABET, repeat=4):
                    if k % nshards == shard_i:
                        work.append((pname, PREFIXES[pname], phase, bytes(s)))
                    k += 1
    CH = 20000
    for i in range(0, len(work), CH):
        chunk = work[i:i + CH]
        cases = []
        for pname, prefix, phase, s in chunk:
            bufs = [b'', b'', b'']
            bufs[phase] = prefix + s
            cases.append(tuple(bufs))
        compare(stats, cases, 'short', lambda idx: ['short-' + chunk[idx][0], 'short-phase%d' % chunk[idx][2]], sample_every=50021)
        if stats.violations:
            return
    if shard_i == 0:
        stats.exhaustive_parts.append('short: every string of length <= %d over %d bytes x %d prefixes x 3 phases' % (maxlen, len(ALPHABET), len(PREFIXES)))
        if tier == 'thorough':
            stats.exhaustive_parts.append('short: every string of length 4 after prefixes proofs/mixed in gamma and proof phases')


def trunc_shard(stats: Stats, shard_i, nshards, seed, tier):
    """Every prefix of every variable-length instruction encoding (MetaVar with each combination of list lengths 0..2,
    Instantiate with 0..3 ids), in each phase: a cut inside an operand must be rejected wherever it falls."""
    if shard_i != 0:
        return
    instrs = []
    for lens in itertools.product((0, 1, 2), repeat=5):
        b = [9, 1]
        for li, n in enumerate(lens):
            b += [n] + [(li + j) % 3 for j in range(n)]
        instrs.append((b'', bytes(b)))
    for n in range(0, 4):
        setup = bytes([2, 0]) * n + bytes([137, 0])
        instrs.append((setup, bytes([26, n] + list(range(n)))))
        instrs.append((setup + bytes([12]), bytes([26, n] + list(range(n)))))
    cases = []
    for setup, ins in instrs:
        for k in range(0, len(ins) + 1):
            for ph in range(3):
                bufs = [b'', b'', b'']
                bufs[ph] = setup + ins[:k]
                cases.append(tuple(bufs))
    compare(stats, cases, 'trunc', lambda i: ['trunc'], sample_every=4001)
    stats.exhaustive_parts.append('trunc: every prefix of %d variable-length instruction encodings x 3 phases' % len(instrs))


@st.composite
def programs(draw):
    n_ax = draw(st.integers(0, 2))
    axioms = [gens.draw_pattern(draw, CFG, draw(st.integers(0, 2))) for _ in range(n_ax)]
    g, c, p, tags = streams.draw_program(draw, CFG, axioms, max_steps=8, reject_rate=15)
    muts = []
    for _ in range(draw(st.integers(0, 3))):
        which = draw(st.integers(0, 2))
        kind = draw(st.sampled_from(['flip', 'delete', 'insert', 'dup', 'truncate', 'op+1', 'op-1', 'splice']))
        muts.append((which, kind, draw(st.integers(0, 10 ** 6)), draw(st.integers(0, 255))))
    return {'g': g, 'c': c, 'p': p, 'tags': tags, 'muts': muts, 'leak': draw(st.integers(0, 2 ** 12))}


def mutate(bufs, mut):
    which, kind, pos, val = mut
    b = bytearray(bufs[which])
    if not b and kind not in ('insert',):
        return None
    i = pos % (len(b) + (1 if kind == 'insert' else 0)) if (b or kind == 'insert') else 0
    if kind == 'flip': b[i] = val
    elif kind == 'delete': del b[i]
    elif kind == 'insert': b.insert(i, val)
    elif kind == 'dup': b.insert(i, b[i])
    elif kind == 'truncate': del b[i:]
    elif kind == 'op+1': b[i] = (b[i] + 1) % 256
    elif kind == 'op-1': b[i] = (b[i] - 1) % 256
    elif kind == 'splice':
        other = bufs[(which + 1 + val % 2) % 3]
        b[i:] = other[(val % (len(other) + 1)):]
    out = list(bufs)
    out[which] = bytes(b)
    return tuple(out)


def gen_shard(stats: Stats, shard_i, nshards, seed, tier):
    n = {'quick': 400, 'thorough': 12000}[tier]
    batch = []

    def body(case, st_):
        batch.append(case)

    common.run_given(Stats(), seed, n, programs(), body, shrink=False)
    cases = []
    meta = []
    for case in batch:
        base = (case['g'], case['c'], case['p'])
        cases.append(base); meta.append(('gen', case['tags']))
        cur = base
        for mut in case['muts']:
            nxt = mutate(cur, mut)
            if nxt is None: continue
            cases.append(nxt); meta.append(('mut', ['mut-' + mut[1]]))
            cur = nxt if mut[3] % 2 else base
    # leftovers across the phase boundaries: terms left on the stack by one file must not be visible to the next file (the
    # stack is cleared between phases), so a stream that consumes them has to be rejected for underflow
    for case in batch:
        base = [case['g'], case['c'], case['p']]
        for mut in [(0, 'leak', case.get('leak', 0), case.get('leak', 0) >> 8)]:
            ph = mut[3] % 2
            n = 1 + mut[2] % 2
            junk = bytes([(2, 3, 4)[(mut[2] >> 1) % 3], mut[3] % 3]) * n
            use = [bytes([27]) * n, bytes([28]), bytes([5]) if n == 2 else bytes([27]), bytes([2, 0, 5, 27])][(mut[2] >> 3) % 4]
            cand = list(base)
            cand[ph] = (junk + cand[ph]) if (mut[2] >> 5) % 2 else (cand[ph] + junk)
            cand[ph + 1] = (cand[ph + 1] + use) if (mut[2] >> 6) % 2 else (use + cand[ph + 1])
            cases.append(tuple(cand)); meta.append(('mut', ['mut-phase-leak']))
    # scale: a memory of up to 255 entries before the program proper (indices around the signed-byte and byte boundaries), and
    # loads of the bulk entries afterwards
    for case in batch[: max(6, len(batch) // 5)]:
        lk = case.get('leak', 0)
        nbulk = [100, 126, 127, 128, 129, 200, 254, 255, 256, 257, 300, 513][lk % 12]   # memory may outgrow what a Load can address
        bulk = bytes([2, lk % 3]) + bytes([28]) * nbulk + bytes([27])
        tailk = [0, nbulk - 1, nbulk, 127, 128, (lk >> 3) % 256, 1, 46, 255][(lk >> 4) % 9] % 256
        ph = 2 if (lk >> 6) % 2 else 0
        cand = [case['g'], case['c'], case['p']]
        cand[ph] = bulk + cand[ph] + bytes([29, tailk]) + (bytes([27]) if (lk >> 7) % 2 else b'')
        cases.append(tuple(cand)); meta.append(('mut', ['mut-bulk-memory']))
    # truncation at every offset of the proof stream for a few programs
    for case in batch[: max(5, len(batch) // 20)]:
        for k in range(len(case['p'])):
            cases.append((case['g'], case['c'], case['p'][:k])); meta.append(('mut', ['mut-truncate-every']))
    gens_ = [(c, m) for c, m in zip(cases, meta) if m[0] == 'gen']
    muts_ = [(c, m) for c, m in zip(cases, meta) if m[0] == 'mut']
    compare(stats, [c for c, _ in gens_], 'gen', lambda i: ['has-' + t for t in gens_[i][1][1]], sample_every=211)
    if not stats.violations:
        compare(stats, [c for c, _ in muts_], 'mut', lambda i: muts_[i][1][1], sample_every=499)
    # the real binary on a sample
    if not stats.violations:
        exe = rustharness.build_checker()
        d = tempfile.mkdtemp(prefix='c05_')
        try:
            for j, (case, _) in enumerate((gens_ + muts_)[:: max(1, len(gens_ + muts_) // (25 if tier == 'quick' else 200))]):
                rc = rustharness.run_checker_bytes(*case, workdir=os.path.join(d, str(j)), exe=exe)
                ref = M.verify(*case)
                stats.case(('bin',) + case, ref[-1].executed > 0, ['binary', 'binary-accept' if rc == 0 else 'binary-reject'])
                if (rc == 0) != (ref[0] == 'ACCEPT'):
                    stats.violation(Violation('[binary] checker binary exit status %d but documented machine %s on gamma=%s claim=%s proof=%s'
                                              % (rc, ref[0], case[0].hex(), case[1].hex(), case[2].hex()),
                                              {'part': 'binary', 'gamma': case[0].hex(), 'claim': case[1].hex(), 'proof': case[2].hex()}, 'diff-binary'))
                    break
        finally:
            shutil.rmtree(d, ignore_errors=True)


@st.composite
def judge_patterns(draw):
    b = streams.Builder(draw, CFG)
    out = []
    for _ in range(draw(st.integers(20, 40))):
        p = b.collision_pattern() if draw(st.integers(0, 4)) == 0 else gens.draw_pattern(draw, CFG, draw(st.integers(1, 4)))
        if draw(st.integers(0, 3)) == 0:
            p = gens.draw_subst(draw, CFG, 2)
        out.append(p)
    return out


def judge_shard(stats: Stats, shard_i, nshards, seed, tier):
    """The documented judgements (e_fresh, s_fresh, positive, negative) of generated meta-patterns vs the checker's."""
    n = {'quick': 25, 'thorough': 800}[tier]
    pats = []
    common.run_given(Stats(), seed, n, judge_patterns(), lambda ps, st_: pats.extend(ps), shrink=False)
    pats = [p for p in pats if R.well_formed(p)]
    lines = rustharness.run_batch([(M.emit(p), b'', b'') for p in pats], mode=2)
    names = ('e_fresh', 's_fresh', 'positive', 'negative')
    fns = (R.e_fresh, R.s_fresh, R.positive, R.negative)
    for p, line in zip(pats, lines):
        interesting = p[0] in ('es', 'ss') or bool(R.metavars(p))
        stats.case(('judge', p), interesting, ['judge'] + (['judge-subst'] if 'es' in repr(p) or 'ss' in repr(p) else []),
                   {'part': 'judge', 'pattern': R.show(p)} if len(stats.samples) < 2 else None)
        if not line.startswith('J '):
            stats.violation(Violation('[judge] the checker refuses to construct the documented-well-formed pattern %s' % R.show(p),
                                      {'part': 'judge', 'gamma': M.emit(p).hex(), 'claim': '', 'proof': ''}, 'judge-construct'))
            return
        bits = line.split(' |P ')[0].split()[1:]
        for x in range(4):
            for j, (nm, fn) in enumerate(zip(names, fns)):
                want = fn(p, x)
                got = bits[x][j] == '1'
                if want != got:
                    stats.violation(Violation('[judge] %s(%s, %d): checker says %s, the documented rule says %s' % (nm, R.show(p), x, got, want),
                                              {'part': 'judge', 'gamma': M.emit(p).hex(), 'claim': '', 'proof': '', 'judgement': nm, 'var': x}, 'judge-' + nm))
                    return


def minimise(v):
    """ddmin-style byte deletion on a violating triple (the mismatch must persist)."""
    case = v['replay']
    bufs = [bytes.fromhex(case['gamma']), bytes.fromhex(case['claim']), bytes.fromhex(case['proof'])]

    def bad(bs):
        t = tuple(bs)
        l0 = rustharness.run_batch([t], mode=0)[0]; l1 = rustharness.run_batch([t], mode=1)[0]
        return l0 != M.dump(M.verify(*t)) or l1 != M.dump(M.run_prefix(*t), with_claims=True)

    if case.get('part') == 'binary' or not bad(bufs):
        return v
    changed = True
    while changed:
        changed = False
        for w in range(3):
            i = 0
            while i < len(bufs[w]):
                cand = list(bufs); cand[w] = bufs[w][:i] + bufs[w][i + 1:]
                if bad(cand):
                    bufs = cand; changed = True
                else:
                    i += 1
    t = tuple(bufs)
    l0 = rustharness.run_batch([t], mode=0)[0]
    want = M.dump(M.verify(*t))
    if l0 == want:
        l0 = rustharness.run_batch([t], mode=1)[0]
        want = M.dump(M.run_prefix(*t), with_claims=True)
    v = dict(v)
    v['replay'] = dict(case, gamma=bufs[0].hex(), claim=bufs[1].hex(), proof=bufs[2].hex())
    v['msg'] = v['msg'].split(' on gamma=')[0] + ' on (minimised) gamma=%s claim=%s proof=%s: checker %s, reference %s' % (
        bufs[0].hex(), bufs[1].hex(), bufs[2].hex(), l0[:300], want[:300])
    return v


def corpus_cases():
    import glob, json

    out = []
    for f in sorted(glob.glob(os.path.join(common.VERIF, 'corpus', PROP, '*.json'))):
        j = json.load(open(f, encoding='utf-8'))
        j = j.get('case', j)
        out.append((bytes.fromhex(j['gamma']), bytes.fromhex(j['claim']), bytes.fromhex(j['proof'])))
    # shipped proofs of the repository must be accepted by both
    pdir = os.path.join(common.REPO, 'proofs')
    if os.path.isdir(pdir):
        for f in sorted(glob.glob(os.path.join(pdir, '**', '*.ml-proof'), recursive=True)):
            base = f[: -len('.ml-proof')]
            try:
                out.append(tuple(open(base + ext, 'rb').read() for ext in ('.ml-gamma', '.ml-claim', '.ml-proof')))
            except OSError:
                pass
    return out


def run(tier, t0):
    stats = Stats()
    rustharness.build_harness(); rustharness.build_checker()
    cc = corpus_cases()
    compare(stats, cc, 'corpus', sample_every=7)
    for c in cc:
        if M.verify(*c)[0] != 'ACCEPT' and len(c[2]) > 200:
            stats.notes.append('a shipped proof is not accepted by the reference machine')
    if not stats.violations:
        common.run_sharded(stats, 'checks.c05', 'short_shard', common.NPROC, tier)
    if not stats.violations:
        common.run_sharded(stats, 'checks.c05', 'trunc_shard', common.NPROC, tier)
    if not stats.violations:
        common.run_sharded(stats, 'checks.c05', 'gen_shard', common.NPROC, tier)
    if not stats.violations:
        common.run_sharded(stats, 'checks.c05', 'judge_shard', common.NPROC, tier)
    if stats.violations and stats.violations[0]['replay'].get('part') != 'judge':
        stats.violations = [minimise(stats.violations[0])] + stats.violations[1:3]
    return common.finish(PROP, tier, stats, RULE, ASSUME, t0)


def replay(case):
    t = (bytes.fromhex(case['gamma']), bytes.fromhex(case['claim']), bytes.fromhex(case['proof']))
    st_ = Stats()
    if case.get('part') == 'judge':
        line = rustharness.run_batch([t], mode=2)[0]
        res = M.run_prefix(t[0], b'', b'')
        p = res[1].stack[-1][1]
        names = ('e_fresh', 's_fresh', 'positive', 'negative'); fns = (R.e_fresh, R.s_fresh, R.positive, R.negative)
        bits = line.split(' |P ')[0].split()[1:] if line.startswith('J ') else None
        if bits is None:
            raise Violation('checker refuses to construct %s' % R.show(p), case, 'judge-construct')
        for x in range(4):
            for j, (nm, fn) in enumerate(zip(names, fns)):
                if fn(p, x) != (bits[x][j] == '1'):
                    raise Violation('%s(%s, %d): checker %s, documented %s' % (nm, R.show(p), x, bits[x][j] == '1', fn(p, x)), case, 'judge-' + nm)
        return
    if case.get('part') == 'binary':
        d = tempfile.mkdtemp(prefix='c05r_')
        try:
            rc = rustharness.run_checker_bytes(*t, workdir=d)
        finally:
            shutil.rmtree(d, ignore_errors=True)
        ref = M.verify(*t)
        if (rc == 0) != (ref[0] == 'ACCEPT'):
            raise Violation('checker binary exit status %d, documented machine %s' % (rc, ref[0]), case, 'diff-binary')
        return
    compare(st_, [t], 'replay')
    if st_.violations:
        v = st_.violations[0]
        raise Violation(v['msg'], v['replay'], v['key'])
