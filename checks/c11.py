"""C11 — substitution and instantiation obey their algebra.

Parts
  py-subst    Pattern.apply_esubst / apply_ssubst vs the reference on the expansion
  py-inst     Pattern.instantiate (simultaneous, resolves pending substitutions) vs reference
  py-compose  p.inst(d1).inst(d2) == p.inst(d1;d2), p.inst({}) == p, restriction to metavars(p)
  sem         substitution lemma of the finite-model semantics on concrete capture-free cases
  rust-inst   the checker's Instantiate / Substitution on the same inputs (via streams) vs reference
"""
from __future__ import annotations

from hypothesis import strategies as st

from lib import common, gens, notations, refmachine as M, refml as R, refsem
from lib.common import Stats, Violation

PROP = 'C11'
RULE = (
    'Hypothesis-generated (pattern with nested/partial notation, variable, plug / instantiation map) cases; '
    'non-trivial = the operation changes the pattern and the pattern contains a binder, a pending substitution '
    'or a notation (Instantiate) node; distinct by (operation, inputs)'
)
ASSUME = [
    'reference substitution/instantiation in lib/refml.py is the textbook one (trusted)',
    'pending substitutions in generated inputs are non-redundant (documented well-formedness)',
    'sem part: finite models with carrier <= 3',
]

CFG = gens.Cfg(ids=(0, 1, 2), nsyms=2)
CFG_NC = gens.Cfg(ids=(0, 1, 2), nsyms=2, constraints=False)


def _nots():
    groups, by_label, defs = notations.registry()
    pool = groups['prop'] + groups['defn'][:3] + groups['extra'] + groups['gen'][4:9] + [groups['gen'][0], groups['gen'][2]]
    return pool, by_label, defs


def has_structure(t):
    k = t[0]
    if k in ('n', 'inst', 'E', 'M', 'es', 'ss'): return True
    if k in ('e', 's', 'y', 'm'): return False
    return any(has_structure(x) for x in t[1:] if isinstance(x, tuple))


# ---------------------------------------------------------------------------
# strategies


BIG = {0: 0, 1: 300, 2: 70000}


def _big(i):
    return int(str(BIG.get(i, i)))     # a fresh int object each time (CPython shares ints only up to 256)


def bigify(c):
    """The Python-side parts over variable ids 0 / 300 / 70000 (ids beyond one byte and beyond the interpreter's shared ints)"""
    if c['part'] not in ('py-subst', 'py-inst', 'py-compose'):
        return c
    out = {}
    for k, v in c.items():
        if k in ('p', 'g'): out[k] = gens.rename_var_ids(v, _big)
        elif k in ('delta', 'd1', 'd2'): out[k] = [(i, gens.rename_var_ids(a, _big)) for i, a in v]
        elif k == 'x': out[k] = _big(v)
        else: out[k] = v
    out['big_ids'] = True
    return out


@st.composite
def cases(draw):
    c = draw(_cases())
    return bigify(c) if draw(st.integers(0, 7)) == 0 else c


@st.composite
def _cases(draw):
    pool, _, defs = _nots()
    part = draw(st.sampled_from(['py-subst', 'py-subst', 'py-inst', 'py-inst', 'py-compose', 'sem', 'rust-inst']))
    if part == 'py-subst':
        p = gens.draw_sugared(draw, CFG, draw(st.integers(1, 3)), pool, True, defs)
        g = gens.draw_sugared(draw, CFG, draw(st.integers(0, 2)), pool, True, defs)
        return {'part': part, 'kind': draw(st.sampled_from(['e', 's'])), 'p': p, 'x': draw(st.sampled_from(CFG.ids)), 'g': g}
    if part == 'py-inst':
        p = gens.draw_sugared(draw, CFG, draw(st.integers(1, 3)), pool, True, defs)
        keys = sorted(draw(st.sets(st.sampled_from(CFG.ids + (3,)), max_size=3)))
        delta = [(k, gens.draw_sugared(draw, CFG, draw(st.integers(0, 2)), pool, True, defs)) for k in keys]
        return {'part': part, 'p': p, 'delta': delta}
    if part == 'py-compose':
        p = gens.draw_sugared(draw, CFG_NC, draw(st.integers(1, 3)), pool, True, defs)
        d1 = [(k, gens.draw_sugared(draw, CFG_NC, draw(st.integers(0, 2)), pool, True, defs)) for k in sorted(draw(st.sets(st.sampled_from(CFG.ids), max_size=3)))]
        d2 = [(k, gens.draw_sugared(draw, CFG_NC, draw(st.integers(0, 2)), pool, True, defs)) for k in sorted(draw(st.sets(st.sampled_from(CFG.ids), max_size=3)))]
        return {'part': part, 'p': p, 'd1': d1, 'd2': d2}
    if part == 'sem':
        ccfg = gens.Cfg(ids=(0, 1, 2), nsyms=2, meta=False, subst=False)
        p = gens.draw_pattern(draw, ccfg, draw(st.integers(1, 4)))
        kind = draw(st.sampled_from(['e', 's']))
        occ = sorted(R.free_evars(p) if kind == 'e' else R.free_svars(p))
        x = draw(st.sampled_from(occ)) if occ and draw(st.integers(0, 4)) else draw(st.sampled_from(ccfg.ids))
        g = R.E(draw(st.sampled_from(ccfg.ids))) if kind == 'e' else gens.draw_pattern(draw, ccfg, draw(st.integers(0, 2)))
        model = draw(st.integers(0, 2 ** 62))
        return {'part': part, 'kind': kind, 'p': p, 'x': x, 'g': g, 'model': model}
    # rust-inst
    wcfg = gens.Cfg(ids=(0, 1, 2), nsyms=2)
    p = gens.draw_pattern(draw, wcfg, draw(st.integers(1, 3)))
    if draw(st.integers(0, 3)):
        keys = draw(st.lists(st.sampled_from(wcfg.ids), max_size=3))
        delta = [(k, gens.draw_pattern(draw, wcfg, draw(st.integers(0, 2)))) for k in keys]
        return {'part': part, 'op': 'inst', 'p': p, 'delta': delta}
    return {'part': part, 'op': 'subst', 'p': p, 'x': draw(st.sampled_from(wcfg.ids)), 'g': gens.draw_pattern(draw, wcfg, draw(st.integers(0, 2)))}


def case_json(c):
    out = {}
    for k, v in c.items():
        if k in ('p', 'g'): out[k] = gens.sugared_to_json_l(v)
        elif k in ('delta', 'd1', 'd2'): out[k] = [[i, gens.sugared_to_json_l(a)] for i, a in v]
        else: out[k] = v
    return out


def case_from_json(j):
    _, by_label, _ = notations.registry()
    out = {}
    for k, v in j.items():
        if k in ('p', 'g'): out[k] = gens.sugared_from_json(v, by_label)
        elif k in ('delta', 'd1', 'd2'): out[k] = [(i, gens.sugared_from_json(a, by_label)) for i, a in v]
        else: out[k] = v
    return out


# ---------------------------------------------------------------------------
# oracle


def _fail(c, msg, key=''):
    raise Violation('[%s] %s' % (c['part'], msg), case_json(c), key)


def body(c, stats: Stats, harness_queue=None):
    """The operations are total on the generated (documented-well-formed, small) inputs: an exception raised inside the
    repository's code - including unbounded recursion on these depth <= 5 patterns - is a failure of the property."""
    try:
        return _body(c, stats, harness_queue)
    except (Violation, common.HarnessError):
        raise
    except Exception as e:  # noqa: BLE001 - classified by origin below
        where = common.raised_in_repo(e)
        if where is None:
            raise
        _fail(c, '[%s] the operation raised instead of returning a pattern: %s' % (c['part'], where), c['part'] + '-raises')


def _body(c, stats: Stats, harness_queue=None):
    _, _, defs = _nots()
    part = c['part']
    if part == 'py-subst':
        p = gens.build_repo(c['p']); g = gens.build_repo(c['g'])
        ep = gens.expand_sugared(c['p'], defs); eg = gens.expand_sugared(c['g'], defs)
        if c['kind'] == 'e':
            got = p.apply_esubst(c['x'], g); exp = R.apply_esubst(ep, c['x'], eg)
        else:
            got = p.apply_ssubst(c['x'], g); exp = R.apply_ssubst(ep, c['x'], eg)
        got_e = R.from_repo(got)
        nt = exp != ep and has_structure(c['p'])
        stats.case(('subst', c['kind'], c['x'], ep, eg), nt, ['py-subst', 'changed' if exp != ep else 'identity'],
                   {'op': 'apply_%ssubst' % c['kind'], 'pattern': gens.show_sugared(c['p']), 'var': c['x'], 'plug': gens.show_sugared(c['g']), 'result': R.show(exp)})
        if got_e != exp:
            _fail(c, 'apply_%ssubst(%s, %d, %s): implementation gives %s, reference %s'
                  % (c['kind'], gens.show_sugared(c['p']), c['x'], gens.show_sugared(c['g']), R.show(got_e), R.show(exp)), 'py-subst')
        return
    if part == 'py-inst':
        p = gens.build_repo(c['p'])
        delta = {k: gens.build_repo(v) for k, v in c['delta']}
        ep = gens.expand_sugared(c['p'], defs)
        ed = {k: gens.expand_sugared(v, defs) for k, v in c['delta']}
        if not gens.admissible_delta(ep, ed):
            stats.excluded['py-inst-inadmissible-delta'] += 1   # constraint-respecting maps only (DESIGN 2.3)
            return
        exp = R.instantiate(ep, ed)
        got = p.instantiate(delta)
        got_e = R.from_repo(got)
        nt = exp != ep and has_structure(c['p'])
        stats.case(('inst', ep, tuple(sorted(ed.items()))), nt,
                   ['py-inst', 'changed' if exp != ep else 'identity', 'partial-map' if not R.metavars(ep) <= set(ed) else 'total-map',
                    'values-mention-metavars' if any(R.metavars(v) for v in ed.values()) else 'closed-values'],
                   {'op': 'instantiate', 'pattern': gens.show_sugared(c['p']), 'delta': {k: gens.show_sugared(v) for k, v in c['delta']}, 'result': R.show(exp)})
        if got_e != exp:
            _fail(c, 'instantiate(%s, %s): implementation gives %s, reference %s'
                  % (gens.show_sugared(c['p']), {k: gens.show_sugared(v) for k, v in c['delta']}, R.show(got_e), R.show(exp)), 'py-inst')
        # metavars() of the result as computed must cover the metavariables of the expansion
        mv = got.metavars()
        if not R.metavars(got_e) <= mv:
            _fail(c, 'metavars() of instantiate result %s misses %s' % (sorted(mv), sorted(R.metavars(got_e) - mv)), 'py-inst-metavars')
        return
    if part == 'py-compose':
        p = gens.build_repo(c['p'])
        d1 = {k: gens.build_repo(v) for k, v in c['d1']}
        d2 = {k: gens.build_repo(v) for k, v in c['d2']}
        ep = gens.expand_sugared(c['p'], defs)
        e1 = {k: gens.expand_sugared(v, defs) for k, v in c['d1']}
        e2 = {k: gens.expand_sugared(v, defs) for k, v in c['d2']}
        comp_ref = {k: R.instantiate(v, e2) for k, v in e1.items()}
        for k, v in e2.items():
            comp_ref.setdefault(k, v)
        lhs_ref = R.instantiate(R.instantiate(ep, e1), e2)
        law_holds_in_reference = lhs_ref == R.instantiate(ep, comp_ref)
        classes = ['py-compose', 'law-applicable' if law_holds_in_reference else 'law-na']
        nt = lhs_ref != ep and has_structure(c['p']) and law_holds_in_reference
        stats.case(('compose', ep, tuple(sorted(e1.items())), tuple(sorted(e2.items()))), nt, classes,
                   {'op': 'compose', 'pattern': gens.show_sugared(c['p']), 'd1': {k: gens.show_sugared(v) for k, v in c['d1']}, 'd2': {k: gens.show_sugared(v) for k, v in c['d2']}})
        # identity and restriction laws (implementation alone)
        if R.from_repo(p.instantiate({})) != ep:
            _fail(c, 'instantiate({}) changed the pattern', 'py-compose-empty')
        restricted = {k: v for k, v in d1.items() if k in R.metavars(ep)}
        if R.from_repo(p.instantiate(d1)) != R.from_repo(p.instantiate(restricted)):
            _fail(c, 'instantiate depends on bindings of metavariables that do not occur', 'py-compose-restrict')
        if law_holds_in_reference:
            comp = {k: v.instantiate(d2) for k, v in d1.items()}
            for k, v in d2.items():
                comp.setdefault(k, v)
            lhs = R.from_repo(p.instantiate(d1).instantiate(d2))
            rhs = R.from_repo(p.instantiate(comp))
            if lhs != rhs:
                _fail(c, 'composition law: inst(d1).inst(d2)=%s but inst(d1;d2)=%s' % (R.show(lhs), R.show(rhs)), 'py-compose-law')
        return
    if part == 'sem':
        p, g, x, kind = c['p'], c['g'], c['x'], c['kind']
        if R.would_capture(p, kind, x, g):
            stats.excluded['sem-capturing'] += 1
            stats.case(None, False, ['sem-capture-skipped'])
            return
        rp = R.to_repo(p); rg = R.to_repo(g)
        got = R.from_repo(rp.apply_esubst(x, rg) if kind == 'e' else rp.apply_ssubst(x, rg))
        got = R.rename_symbols(got, lambda s: int(s[1:]) if isinstance(s, str) else s)
        # model from the case's integer
        bits = c['model']

        def take(k):
            nonlocal bits
            v = bits & ((1 << k) - 1); bits >>= k
            return v

        n = 1 + take(2) % 3
        full = (1 << n) - 1
        sym = {i: take(3) & full for i in range(3)}
        app = [take(3) & full for _ in range(n * n)]
        re = {i: take(2) % n for i in range(3)}
        rs = {i: take(3) & full for i in range(3)}
        lhs = refsem.ev(got, n, sym, app, re, rs)
        if kind == 'e':
            re2 = dict(re); re2[x] = re[g[1]]
            rhs = refsem.ev(p, n, sym, app, re2, rs)
        else:
            rs2 = dict(rs); rs2[x] = refsem.ev(g, n, sym, app, re, rs)
            rhs = refsem.ev(p, n, sym, app, re, rs2)
        occurs = (x in R.free_evars(p)) if kind == 'e' else (x in R.free_svars(p))
        stats.case(('sem', kind, p, x, g, n, tuple(sorted(sym.items())), tuple(app)), occurs and has_structure(p),
                   ['sem', 'var-occurs' if occurs else 'var-absent'],
                   {'op': 'substitution-lemma', 'pattern': R.show(p), 'var': ('x%d' if kind == 'e' else 'X%d') % x, 'plug': R.show(g), 'carrier': n})
        if lhs != rhs:
            _fail(c, 'substitution lemma fails: [[%s[%s/%s%d]]] = %s but [[p]] with updated valuation = %s (carrier %d)'
                  % (R.show(p), R.show(g), 'x' if kind == 'e' else 'X', x, bin(lhs), bin(rhs), n), 'sem')
        return
    if part == 'rust-inst':
        p = c['p']
        if c['op'] == 'inst':
            ids = [k for k, _ in c['delta']]
            plugs = [v for _, v in c['delta']]
            # stream: plugs pushed so that the first id is matched with the topmost plug
            stream = b''.join(M.emit(v) for v in reversed(plugs)) + M.emit(p) + bytes([26, len(ids), *ids])
        else:
            # Substitution acts on proofs: build |- p -> p is not available for arbitrary p; use
            # Instantiate of prop1's phi0 := p to obtain a proved term containing p, then Substitution
            stream = M.emit(c['g']) + M.emit(p) + bytes([12, 26, 1, 0]) + bytes([24, c['x']])
        ref = M.run_prefix(b'', b'', stream)
        if harness_queue is not None:
            harness_queue.append((c, stream, ref))
        return
    raise common.HarnessError('unknown part %r' % part)


def flush_rust(queue, stats: Stats):
    """Run the queued streams through the harness in one batch and compare."""
    if not queue:
        return
    from lib import rustharness

    lines = rustharness.run_batch([(b'', b'', s) for _, s, _ in queue], mode=1)
    for (c, stream, ref), line in zip(queue, lines):
        exp = M.dump(ref, with_claims=True)
        changed = ref[0] == 'ACCEPT'
        stats.case(('rust', stream), changed and (c['p'][0] in ('es', 'ss', 'E', 'M') or R.size(c['p']) > 2),
                   ['rust', 'rust-op-' + c['op'], 'ref-accept' if ref[0] == 'ACCEPT' else 'ref-reject:' + ref[1].split(':')[0]],
                   {'op': 'checker ' + c['op'], 'stream': stream.hex(), 'reference': exp[:200]})
        if line != exp:
            stats.violation(Violation('[rust-inst] checker and reference disagree on stream %s: checker %s, reference %s (%s)'
                                      % (stream.hex(), line[:300], exp[:300], ref[1] if ref[0] == 'REJECT' else ''),
                                      dict(case_json(c), stream=stream.hex()), 'rust-inst'))
            return True
    return False


def shard(stats: Stats, shard_i, nshards, seed, tier):
    n = {'quick': 2500, 'thorough': 60000}[tier]
    queue = []

    def b(c, st_):
        body(c, st_, queue)

    common.run_given(stats, seed, n, cases(), b)
    # the rust part is compared in one batch (not shrunk by Hypothesis; streams are small)
    flush_rust(queue, stats)


def run(tier, t0):
    stats = Stats()
    # regression corpus first
    for case in common_corpus():
        try:
            c = case_from_json(case)
            q = []
            body(c, stats, q)
            flush_rust(q, stats)
        except Violation as v:
            stats.violation(v)
    from lib import rustharness

    rustharness.build_harness()
    common.run_sharded(stats, 'checks.c11', 'shard', common.NPROC, tier)
    return common.finish(PROP, tier, stats, RULE, ASSUME, t0)


def common_corpus():
    import glob, json, os

    out = []
    for f in sorted(glob.glob(os.path.join(common.VERIF, 'corpus', PROP, '*.json'))):
        j = json.load(open(f, encoding='utf-8'))
        out.append(j.get('case', j))
    return out


def replay(case):
    c = case_from_json({k: v for k, v in case.items() if k != 'stream'})
    st_ = Stats()
    q = []
    body(c, st_, q)
    flush_rust(q, st_)
    if st_.violations:
        v = st_.violations[0]
        raise Violation(v['msg'], v['replay'], v['key'])
