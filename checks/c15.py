"""C15 — Metamath compressed proofs are decoded as Appendix B of the Metamath book says.

Parts
  numbers   reference encoder (lib/refmm.py) -> repository decoder, exhaustively over 1..N, and every letter string
            [U-Y]{0..k}[A-T] -> the book's value (injective)
  labels    generated database text (label lists of 0..40 labels, arbitrary whitespace layout, body split anywhere):
            Lemma.proof.labels = mandatory hypotheses in database order, then the listed labels, numbered from 1
  z         Z after arbitrary steps: marker exactly there; later numbers > m+n denote the k-th marked step (vs reference decoder)
  exec      generated databases whose target proof verifies under Appendix B (reference verifier), compressed with Z on every
            repeated subproof / on a random half / with subproofs marked twice: running the decoded proof through the
            translator (exec_proof) must succeed and prove the target's statement
  hashseed  targets with 0..4 mandatory variables whose $f order differs from name order, decoded in child processes
            under several PYTHONHASHSEED values
"""
from __future__ import annotations

import itertools
import json
import os
import subprocess
import sys

from hypothesis import strategies as st

from lib import common, refmm
from lib.common import Stats, Violation

PROP = 'C15'
RULE = (
    'exhaustive number round trip (1..200 000 quick / 1..1 000 000 thorough, plus all boundaries 20*5^k +- 2) and every letter '
    'string with <= 5 (quick) / <= 7 (thorough) high digits; Hypothesis-generated label lists, whitespace layouts and Z placements; '
    'hash-seed sweep in child processes; generated valid databases in three Z layouts executed by the translator. non-trivial = number >= 21, label list of length >= 2, proof body with >= 1 Z followed by '
    'a back-reference, target with >= 2 mandatory variables; distinct by value / database text'
)
ASSUME = ['lib/refmm.py encodes/decodes compressed proofs as in Appendix B of the Metamath book (trusted)']

HEADER = '''$c #Pattern |- \\\\k \\\\imp ( ) $.
$v %(vars)s $.
%(floats)s
k-is-pattern $a #Pattern \\\\k $.
'''


def db_text(var_order, stmt, proof, earlier=None):
    vs = sorted(var_order)
    floats = '\n'.join('%s-is-pattern $f #Pattern %s $.' % (v, v) for v in var_order)
    hdr = (HEADER % {'vars': ' '.join(vs) if vs else 'zz', 'floats': floats}).replace('\\\\', '\\')
    # an earlier provable statement over the same variables with its own label list: every compressed proof has its own table
    pre = ''
    for i, e in enumerate(earlier or []):
        if e[0] == 'RAW':   # the very same proof text under a statement over other variables
            pre += 'pre%d $p |- %s $= %s $.\n' % (i, e[2], e[1])
        else:
            pre += 'pre%d $p |- %s $= ( %s ) %s $.\n' % (i, stmt, ' '.join(e[0]), e[1])
    return hdr + pre + 'goal $p |- %s $= %s $.\n' % (stmt, proof)


def decode_with_repo(text):
    from proof_generation.metamath.converter.converter import MetamathConverter
    from proof_generation.metamath.parser import parse_database

    conv = MetamathConverter(parse_database(text))
    pr = conv.get_lemma_by_name('goal').proof
    return dict(pr.labels), list(pr.applied_lemmas)


def numbers_shard(stats: Stats, shard_i, nshards, seed, tier):
    top = {'quick': 200000, 'thorough': 1000000}[tier]
    nums = list(range(1 + shard_i, top + 1, nshards))
    if shard_i == 0:
        for k in range(0, 9):
            b = 20 * 5 ** k
            nums += [x for x in range(b - 2, b + 3) if x >= 1]
            b2 = sum(20 * 5 ** j for j in range(k + 1))
            nums += [x for x in range(b2 - 2, b2 + 3) if x >= 1]
    CH = 4000
    for i in range(0, len(nums), CH):
        chunk = nums[i:i + CH]
        body = ''.join(refmm.encode_num(n) for n in chunk)
        # split the body at arbitrary points (whitespace inside the letter sequence is allowed)
        parts = [body[j:j + 61] for j in range(0, len(body), 61)]
        _, got = decode_with_repo(db_text([], '\\k', '( ) ' + '\n'.join(parts)))
        for n, g in zip(chunk, got):
            stats.case(('n', n), n >= 21, ['numbers'], {'number': n, 'encoding': refmm.encode_num(n)} if n in (20, 21, 120, 121, 620, 621, 3120, 3121) else None)
        if got != chunk:
            bad = next((a, b) for a, b in itertools.zip_longest(chunk, got) if a != b)
            stats.violation(Violation('number %s encoded as %s is decoded as %s' % (bad[0], refmm.encode_num(bad[0]) if bad[0] else None, bad[1]),
                                      {'part': 'numbers', 'number': bad[0]}, 'numbers'))
            return
    # every letter string -> book value, injective
    maxhi = {'quick': 5, 'thorough': 7}[tier]
    words = []
    k = 0
    for hi in range(0, maxhi + 1):
        for his in itertools.product('UVWXY', repeat=hi):
            for lo in 'ABCDEFGHIJKLMNOPQRST':
                k += 1
                if k % nshards == shard_i:
                    words.append(''.join(his) + lo)
    for i in range(0, len(words), CH):
        chunk = words[i:i + CH]
        _, got = decode_with_repo(db_text([], '\\k', '( ) ' + ' '.join(chunk)))
        want = [refmm.decode_num(w) for w in chunk]
        for w in chunk:
            stats.case(('w', w), len(w) >= 2, ['words'])
        if got != want:
            bad = next((w, a, b) for w, a, b in zip(chunk, want, got) if a != b)
            stats.violation(Violation('letter string %s decodes to %s, Appendix B gives %s' % (bad[0], bad[2], bad[1]), {'part': 'words', 'word': bad[0]}, 'words'))
            return
        if len(set(got)) != len(got):
            stats.violation(Violation('two letter strings decode to the same number', {'part': 'words', 'words': chunk[:50]}, 'words-injective'))
            return
    if shard_i == 0:
        stats.exhaustive_parts.append('numbers 1..%d round trip; all letter strings with <= %d high digits' % (top, maxhi))


LABEL = st.text(alphabet='abcxyz019-_.', min_size=1, max_size=6)
WS = st.sampled_from([' ', '\n', '\t', '  ', ' \n ', '\n\n', '\r\n'])


@st.composite
def cases(draw):
    nv = draw(st.integers(0, 4))
    names = ['ph%d' % i for i in range(nv)]
    order = list(draw(st.permutations(names)))
    used = draw(st.lists(st.sampled_from(names), max_size=nv, unique=True)) if names else []
    stmt = '\\k'
    for v in used:
        stmt = '( \\imp %s %s )' % (v, stmt) if draw(st.booleans()) else '( \\imp %s %s )' % (stmt, v)
    labels = draw(st.lists(LABEL.filter(lambda l: not l.endswith('-is-pattern')), max_size=40, unique=True))
    m = len(used)
    nsteps = draw(st.integers(0, 30))
    body = []
    nz = 0
    plain = []
    for _ in range(nsteps):
        k = draw(st.integers(0, 9))
        if k < 2 and plain and plain[-1] != 'Z':
            body.append('Z'); plain.append('Z'); nz += 1
        elif k < 4 and nz:
            n = m + len(labels) + draw(st.integers(1, nz))
            body.append(refmm.encode_num(n)); plain.append(n)
        else:
            hi = max(1, m + len(labels))
            n = draw(st.integers(1, hi)) if draw(st.integers(0, 5)) else draw(st.integers(1, 100000))
            body.append(refmm.encode_num(n)); plain.append(n)
    # layout: whitespace between any tokens, body letters split at arbitrary points
    text = ''.join(body)
    cuts = sorted(draw(st.sets(st.integers(0, max(0, len(text))), max_size=6)))
    pieces = []
    prev = 0
    for ccut in cuts + [len(text)]:
        if ccut > prev:
            pieces.append(text[prev:ccut]); prev = ccut
    proof = '(' + draw(WS) + ''.join(l + draw(WS) for l in labels) + ')' + draw(WS) + ''.join(pc + draw(WS) for pc in pieces)
    earlier = []
    for _ in range(draw(st.sampled_from([0, 0, 1, 2]))):
        ls = draw(st.lists(LABEL.filter(lambda l: not l.endswith('-is-pattern')), max_size=5, unique=True))
        earlier.append([ls, ''.join(refmm.encode_num(draw(st.integers(1, max(1, m + len(ls))))) for _ in range(draw(st.integers(1, 4))))])
    if len(names) >= 2 and used and draw(st.integers(0, 2)) == 0:
        # an earlier lemma with the *identical* proof text whose statement uses the other variables: the same letters then
        # denote other mandatory hypotheses
        rot = {v: names[(names.index(v) + 1) % len(names)] for v in names}
        stmt2 = ' '.join(rot.get(tok, tok) for tok in stmt.split())
        earlier.insert(draw(st.integers(0, len(earlier))), ['RAW', proof, stmt2])
    return {'part': 'labels', 'order': order, 'used': used, 'stmt': stmt, 'labels': labels, 'plain': plain, 'proof': proof, 'earlier': earlier,
            'hashseeds': draw(st.lists(st.integers(0, 4000), min_size=0, max_size=0))}


def expected_of(c):
    mand = [v + '-is-pattern' for v in c['order'] if v in c['used']]
    table = {i + 1: l for i, l in enumerate(mand + c['labels'])}
    applied = [0 if x == 'Z' else x for x in c['plain']]
    return table, applied


def body(c, stats: Stats):
    text = db_text(c['order'], c['stmt'], c['proof'], c.get('earlier'))
    try:
        labels, applied = decode_with_repo(text)
    except Exception as e:
        raise Violation('importing a database with a compressed proof raised %s: %s\n%s' % (type(e).__name__, str(e)[:200], text), dict(c, text=text), 'import-raise')
    table, want = expected_of(c)
    # cross-check the expectation with the reference decoder (token level)
    toks = c['proof'].split()
    hyps = [('f', (l, '#Pattern', l[: -len('-is-pattern')], 0)) for l in [v + '-is-pattern' for v in c['order'] if v in c['used']]]
    steps = refmm.decompress(None, hyps, toks)
    ref_applied = []
    nlab = len(table)
    for k, arg in steps:
        if k == 'Z': ref_applied.append(0)
        elif k == 'L': ref_applied.append([i for i, l in table.items() if l == arg][0])
        else: ref_applied.append(nlab + arg + 1)
    norm = lambda seq: [x if (x == 0 or x > nlab) else table[x] for x in seq]
    if norm(ref_applied) != norm(want):
        raise common.HarnessError('generator and reference decoder disagree: %s vs %s' % (ref_applied, want))
    nz = sum(1 for x in want if x == 0)
    backref = any(x > nlab for x in want) and nz
    stats.case(text, len(c['labels']) >= 2 or backref or len(c['used']) >= 2,
               ['labels', 'nlabels-%d' % min(len(c['labels']), 5), 'mand-%d' % len(c['used'])] + (['after-earlier-proofs'] if c.get('earlier') else []) + (['has-Z'] if nz else []) + (['has-backref'] if backref else []),
               {'statement': c['stmt'], 'float_order': c['order'], 'proof': c['proof'][:200], 'labels': table})
    if labels != table:
        raise Violation('label table %s, expected mandatory hypotheses in database order then listed labels: %s\n%s' % (labels, table, text), dict(c, text=text), 'label-table')
    if applied != want:
        raise Violation('decoded steps %s, expected %s (0 = Z)\n%s' % (applied, want, text), dict(c, text=text), 'steps')


CHILD = r'''
import sys, json
sys.path.insert(0, sys.argv[1])
from proof_generation.metamath.converter.converter import MetamathConverter
from proof_generation.metamath.parser import parse_database
out = []
for text in json.load(sys.stdin):
    try:
        pr = MetamathConverter(parse_database(text)).get_lemma_by_name('goal').proof
        out.append([sorted(pr.labels.items()), pr.applied_lemmas])
    except Exception as e:
        out.append(['ERR', type(e).__name__ + ': ' + str(e)[:100]])
json.dump(out, sys.stdout)
'''


def hashseed_shard(stats: Stats, shard_i, nshards, seed, tier):
    """databases with 2..4 mandatory variables in shuffled $f order, decoded under many hash seeds"""
    seeds = {'quick': list(range(32)), 'thorough': list(range(256))}[tier]
    my_seeds = [s for i, s in enumerate(seeds) if i % nshards == shard_i]
    cases_ = []
    names = ['ph%d' % i for i in range(4)]
    k = 0
    for nv in (2, 3, 4):
        for order in itertools.permutations(names[:nv]):
            k += 1
            stmt = '\\k'
            for v in names[:nv]:
                stmt = '( \\imp %s %s )' % (v, stmt)
            proof = '( ) ' + ''.join(refmm.encode_num(i + 1) for i in range(nv))
            cases_.append({'order': list(order), 'used': names[:nv], 'stmt': stmt, 'labels': [], 'plain': list(range(1, nv + 1)), 'proof': proof})
    texts = [db_text(c['order'], c['stmt'], c['proof']) for c in cases_]
    for hs in my_seeds:
        env = dict(os.environ, PYTHONHASHSEED=str(hs))
        r = subprocess.run([sys.executable, '-c', CHILD, common.REPO_SRC], input=json.dumps(texts), capture_output=True, text=True, env=env)
        if r.returncode != 0:
            raise common.HarnessError('child failed: ' + r.stderr[-500:])
        outs = json.loads(r.stdout)
        for c, text, out in zip(cases_, texts, outs):
            table, want = expected_of(c)
            stats.case((text, hs), True, ['hashseed', 'mand-%d' % len(c['used'])], {'float_order': c['order'], 'hashseed': hs} if hs == my_seeds[0] and c is cases_[0] else None)
            if out[0] == 'ERR' or dict((int(a), b) for a, b in out[0]) != table or out[1] != want:
                stats.violation(Violation('under PYTHONHASHSEED=%d the label table is %s, expected %s (floats declared in order %s)' % (hs, out[0], table, c['order']),
                                          dict(c, part='hashseed', hashseed=hs, text=text), 'hashseed'))
                return


def shard(stats: Stats, shard_i, nshards, seed, tier):
    n = {'quick': 600, 'thorough': 8000}[tier]
    common.run_given(stats, seed, n, cases(), body)


# ---- exec: the decoded numbers as *consumed* by the translator (exec_proof): with Z marks on every repeated subproof, on a
# random half, and with subproofs marked twice, running the decoded proof must succeed and prove the target's statement,
# because the compressed proof verifies under Appendix B (reference verifier lib/refmm.py)
@st.composite
def exec_cases(draw):
    from lib import mmgen

    g, goal, rpn, texts = mmgen.make(mmgen.DrawRnd(draw))
    from checks import c16
    return {'part': 'exec', 'texts': {k: texts[k] for k in ('all', 'random', 'dup')}, 'exp_claim': c16.image(g, goal), 'goal': mmgen.tstr(goal)}


def exec_body(c, stats: Stats):
    import shutil, tempfile
    from checks import c16
    from lib import refmachine as M, refml as R

    d = tempfile.mkdtemp(prefix='c15_')
    try:
        for zm, t in c['texts'].items():
            try:
                refmm.parse_and_verify(t)
            except Exception:
                stats.excluded['exec-generator-invalid-database'] += 1
                return
            body_letters = t.split('$=')[-1].split(')')[-1]
            nz = body_letters.count('Z')
            stats.case(t, nz >= 1, ['exec', 'exec-layout-' + zm] + (['exec-has-Z'] if nz else []) + (['exec-Z>=3'] if nz >= 3 else []),
                       {'goal': c['goal'], 'layout': zm, 'proof': t.split('$=')[-1].strip()[:120]})
            try:
                files = c16.translate_inprocess(t, d)
            except Exception as e:
                raise Violation('executing the decoded proof (layout %s) raised %s: %s although the compressed proof verifies under Appendix B\n%s'
                                % (zm, type(e).__name__, str(e)[:200], t), dict(c, layout=zm), 'exec-raise')
            res = M.verify(*files)
            exp = c16._tup(c['exp_claim']) if isinstance(c['exp_claim'], list) else c['exp_claim']
            bij = c16.Bij(); bij.new_statement()
            if res[0] != 'ACCEPT' or len(res[1].claimed) != 1 or not bij.unify(exp, res[1].claimed[0]) or len(res[1].proved) != 1:
                raise Violation('executing the decoded proof (layout %s) does not prove the target statement |- %s (documented machine: %s %s)\n%s'
                                % (zm, c['goal'], res[0], res[1] if res[0] == 'REJECT' else [R.show(x) for x in res[1].proved], t), dict(c, layout=zm), 'exec-statement')
    finally:
        shutil.rmtree(d, ignore_errors=True)


def exec_shard(stats: Stats, shard_i, nshards, seed, tier):
    n = {'quick': 12, 'thorough': 500}[tier]
    common.run_given(stats, seed, n, exec_cases(), exec_body)


def run(tier, t0):
    import glob

    stats = Stats()
    for f in sorted(glob.glob(os.path.join(common.VERIF, 'corpus', PROP, '*.json'))):
        j = json.load(open(f, encoding='utf-8'))
        try:
            replay(j.get('case', j))
        except Violation as v:
            stats.violation(v)
    common.run_sharded(stats, 'checks.c15', 'numbers_shard', common.NPROC, tier)
    if not stats.violations:
        common.run_sharded(stats, 'checks.c15', 'shard', common.NPROC, tier)
    if not stats.violations:
        common.run_sharded(stats, 'checks.c15', 'hashseed_shard', common.NPROC, tier)
    if not stats.violations:
        common.run_sharded(stats, 'checks.c15', 'exec_shard', common.NPROC, tier)
    return common.finish(PROP, tier, stats, RULE, ASSUME, t0)


def replay(case):
    part = case.get('part', 'labels')
    if part == 'exec':
        exec_body(case, Stats())
        return
    if part == 'numbers':
        n = case['number']
        _, got = decode_with_repo(db_text([], '\\k', '( ) ' + refmm.encode_num(n)))
        if got != [n]:
            raise Violation('number %d decoded as %s' % (n, got), case, 'numbers')
        return
    if part == 'words':
        w = case.get('word') or case['words'][0]
        _, got = decode_with_repo(db_text([], '\\k', '( ) ' + w))
        if got != [refmm.decode_num(w)]:
            raise Violation('letter string %s decodes to %s' % (w, got), case, 'words')
        return
    if part == 'hashseed':
        env = dict(os.environ, PYTHONHASHSEED=str(case['hashseed']))
        r = subprocess.run([sys.executable, '-c', CHILD, common.REPO_SRC], input=json.dumps([case['text']]), capture_output=True, text=True, env=env)
        out = json.loads(r.stdout)[0]
        table, want = expected_of(case)
        if out[0] == 'ERR' or dict((int(a), b) for a, b in out[0]) != table or out[1] != want:
            raise Violation('under PYTHONHASHSEED=%s the label table is %s, expected %s' % (case['hashseed'], out[0], table), case, 'hashseed')
        return
    body({k: v for k, v in case.items() if k != 'text'}, Stats())
