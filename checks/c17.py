"""C17 — Metamath databases survive printing, re-parsing and slicing.

Parts
  rt     random databases within the parser's grammar (nested blocks, $c/$v/$d/$f/$e/$a/$p, s-expression terms,
         compressed / plain / missing proofs, odd tokens, arbitrary whitespace): parse(print(parse(t))) == parse(t),
         printing is idempotent
  slice  databases of the shape slice_database documents (top-level floats; lemma blocks with $d/$e and a final $p),
         1-6 lemmas with valid compressed proofs that use earlier lemmas: every slice re-parses, a strict reference
         verifier (lib/refmm.py) checks the lemma's original proof in the slice and derives the original statement,
         floating hypotheses keep their original relative order
"""
from __future__ import annotations

from hypothesis import strategies as st

from lib import common, mmgen, refmm
from lib.common import Stats, Violation

PROP = 'C17'
RULE = (
    'Hypothesis-generated database texts (rt) and multi-lemma databases with verified compressed proofs (slice). non-trivial = '
    '(rt) database with a nested block and a $p statement, (slice) lemma with >= 1 essential hypothesis or $d, >= 2 mandatory '
    'variables or a dependency on an earlier lemma; distinct by text'
)
ASSUME = [
    'slices are judged by lib/refmm.py in strict mode (every token a declared constant or an active variable with a floating hypothesis, every label active)',
    'generated multi-lemma databases are verified by lib/refmm.py before slicing (generator soundness)',
]

CONSTS = ['\\a', '\\imp', '"dv"', 'x-y', '#Pattern', '|-', '#Notation', 'c.1', '\\kore-top', 'A']
VARS = ['ph0', 'ph1', 'x', 'X0']
WS = st.sampled_from([' ', '\n', '  ', '\t', ' \n', '\n   '])


def draw_term(draw, vars_, depth):
    if depth == 0 or draw(st.integers(0, 2)) == 0:
        pool = CONSTS[:5] + list(vars_)
        return draw(st.sampled_from(pool))
    head = draw(st.sampled_from(CONSTS[:3] + ['\\f']))
    n = draw(st.integers(1, 3))
    return '( %s %s )' % (head, ' '.join(draw_term(draw, vars_, depth - 1) for _ in range(n)))


def draw_stmts(draw, declared, depth, counter):
    out = []
    for _ in range(draw(st.integers(0, 5))):
        k = draw(st.sampled_from(['c', 'v', 'd', 'f', 'e', 'a', 'p', 'block', 'a', 'p']))
        if k == 'c':
            out.append('$c %s $.' % ' '.join(draw(st.lists(st.sampled_from(CONSTS), min_size=1, max_size=4))))
        elif k == 'v':
            vs = draw(st.lists(st.sampled_from(VARS), min_size=1, max_size=3, unique=True))
            declared.extend(v for v in vs if v not in declared)
            out.append('$v %s $.' % ' '.join(vs))
        elif k == 'd' and len(declared) >= 2:
            vs = draw(st.lists(st.sampled_from(declared), min_size=2, max_size=3, unique=True))
            out.append('$d %s $.' % ' '.join(vs))
        elif k == 'f' and declared:
            counter[0] += 1
            out.append('f%d $f %s %s $.' % (counter[0], draw(st.sampled_from(['#Pattern', '#Variable', '#Symbol'])), draw(st.sampled_from(declared))))
        elif k in ('e', 'a', 'p'):
            counter[0] += 1
            label = draw(st.sampled_from(['l', 'ax-', 'th.', 'x_'])) + str(counter[0])
            terms = ' '.join([draw(st.sampled_from(['|-', '#Pattern', '#Notation']))] + [draw_term(draw, declared, draw(st.integers(0, 3))) for _ in range(draw(st.integers(1, 2)))])
            if k == 'p':
                pk = draw(st.integers(0, 3))
                if pk == 0: proof = '?'
                elif pk == 1: proof = ' '.join(draw(st.lists(st.sampled_from(['l1', 'ax-2', 'f1', 'wph']), min_size=1, max_size=5)))
                else:
                    labels = draw(st.lists(st.sampled_from(['l1', 'ax-2', 'f1', 'wph']), max_size=4))
                    letters = ''.join(draw(st.lists(st.sampled_from(['A', 'B', 'UA', 'Z', 'T', 'VYC']), min_size=1, max_size=8)))
                    cut = draw(st.integers(0, len(letters)))
                    proof = '( %s ) %s %s' % (' '.join(labels), letters[:cut], letters[cut:])
                out.append('%s $p %s $= %s $.' % (label, terms, proof))
            else:
                out.append('%s $%s %s $.' % (label, k, terms))
        elif k == 'block' and depth < 3:
            inner = draw_stmts(draw, declared, depth + 1, counter)
            out.append('${ %s $}' % ' '.join(inner))
    return out


def respace(draw, text):
    toks = text.split()
    return ''.join(t + draw(WS) for t in toks)


def long_text(kind, n, depth, shape):
    """A database with one very long statement (n symbols): the size range unit-sized generation never reaches"""
    vs = ['v%d' % i for i in range(n)]

    def bal(lo, hi):
        if hi - lo == 1: return vs[lo]
        if shape == 'flat' and hi - lo > 3: return '( \\f %s )' % ' '.join(vs[lo:hi])
        m = (lo + hi) // 2
        return '( \\imp %s %s )' % (bal(lo, m), bal(m, hi))

    head = ['$c |- \\imp \\f ( ) #Pattern $.']
    if kind == 'c':
        stmt = ['$c %s $.' % ' '.join('c%d' % i for i in range(n))]
    elif kind == 'v':
        stmt = ['$v %s $.' % ' '.join(vs)]
    elif kind == 'd':
        stmt = ['$v %s $.' % ' '.join(vs), '$d %s $.' % ' '.join(vs)]
    elif kind in ('a', 'e'):
        stmt = ['$v %s $.' % ' '.join(vs[: n // 2 + 1]), 'long.%s $%s |- %s $.' % (kind, kind, bal(0, n // 2 + 1))]
    else:
        stmt = ['$v v0 $.', 'long.p $p |- v0 $= %s $.' % (' '.join('l%d' % i for i in range(n)) if shape == 'flat' else '( %s ) %s' % (' '.join('l%d' % i for i in range(n // 2)), 'ABCZ' * (n // 8)))]
    tail = ['after $a |- ( \\imp v0 v0 ) $.'] if kind in ('v', 'd', 'a', 'e') else []
    body = stmt + tail
    for _ in range(depth):
        body = ['${'] + body + ['$}']
    return '\n'.join(head + body) + '\n'


@st.composite
def cases(draw):
    if draw(st.integers(0, 11)) == 0:
        n = draw(st.sampled_from([300, 1000, 2000, 3000, 4100, 5000])) + draw(st.integers(0, 120))
        return {'part': 'rt', 'long': True,
                'text': long_text(draw(st.sampled_from(['c', 'v', 'd', 'a', 'e', 'p'])), n, draw(st.integers(0, 2)), draw(st.sampled_from(['flat', 'balanced'])))}
    if draw(st.integers(0, 2)) == 0:
        declared = []
        stmts = draw_stmts(draw, declared, 0, [0])
        return {'part': 'rt', 'text': respace(draw, '\n'.join(stmts)) if stmts else ''}
    # slice: multi-lemma database
    rnd = mmgen.DrawRnd(draw)
    g = mmgen.Gen(rnd)
    lines = [g.header()]
    with_distinct = draw(st.integers(0, 2)) == 0
    if with_distinct:
        # an axiom with its own disjoint-variable restriction, and a top-level $d over three or more variables declared
        # after the axioms (so it only restricts the lemmas and serves as their context)
        # (sometimes the restriction also names a variable that occurs nowhere in the axiom: it still has to be declared in a slice)
        spurious = [v for v in g.vars if v not in ('ph0', 'ph1')]
        extra_d = (' ' + draw(st.sampled_from(spurious))) if spurious and draw(st.booleans()) else ''
        lines.append('${ $d ph0 ph1%s $. ax-d $a |- ( \\imp ph0 ph1 ) $. $}' % extra_d)
        dvars = list(draw(st.permutations(g.vars)))[: draw(st.integers(3, len(g.vars)))] if len(g.vars) >= 3 else list(g.vars)
        lines.append('$d %s $.' % ' '.join(dvars))
    elif draw(st.integers(0, 3)) == 0 and len(g.vars) >= 2:
        pair = draw(st.lists(st.sampled_from(g.vars), min_size=2, max_size=2, unique=True))
        lines.append('$d %s $.' % ' '.join(pair))
    if draw(st.integers(0, 2)) == 0:
        # a variable declared in a second $v statement *after* the axioms, with its floating hypothesis there: lemmas over it
        # need that late $f in their slice, in its original position (last)
        lines.append('$v th $.')
        lines.append('th-is-pattern $f #Pattern th $.')
        g.vars = list(g.vars) + ['th']; g.nvars += 1
        g.float_order = list(g.float_order) + ['th']
    lemmas = []
    for i in range(draw(st.integers(1, 5))):
        label = 'lem-%d' % i
        nleaves = draw(st.sampled_from([0, 1, 2, 3]))
        leaves = rnd.sample(g.vars, min(nleaves, g.nvars))
        hyp = None
        if with_distinct and draw(st.booleans()):
            a_, b_ = draw(st.lists(st.sampled_from(dvars), min_size=2, max_size=2, unique=True))
            g.axioms['ax-d'] = ('\\imp', 'ph0', 'ph1')
            node = ('ax-d', {'ph0': a_, 'ph1': b_}, [])
            goal = g.concl(node)
            rpn = []
            g.emit(node, rpn)
            proof = compress_with_hyps(g, rpn, mmgen.tvars(goal), [], 'none')
            del g.axioms['ax-d']
            lines.append('%s $p |- %s $= %s $.' % (label, mmgen.tstr(goal), proof))
            lemmas.append({'label': label, 'stmt': '|- ' + mmgen.tstr(goal), 'has_hyp': False, 'has_d': True, 'nvars': 2, 'deps': []})
            continue
        if draw(st.integers(0, 2)) == 0:
            hyp = g.rterm(1, leaves)
            g.axioms[label + '.0'] = hyp     # usable as a step inside this lemma's derivation
        node = g.derive(draw(st.integers(1, 3)), leaves)
        goal = g.concl(node)
        rpn = []
        g.emit(node, rpn)
        if hyp is not None:
            del g.axioms[label + '.0']
        uses_hyp = hyp is not None and (label + '.0') in rpn
        target_vars = mmgen.tvars(goal) + (mmgen.tvars(hyp) if hyp is not None else [])
        if hyp is not None:
            g.axioms[label + '.0'] = hyp
        proof = compress_with_hyps(g, rpn, target_vars, [label + '.0'] if hyp is not None else [], draw(st.sampled_from(['none', 'all', 'random'])))
        if hyp is not None:
            del g.axioms[label + '.0']
        dline = ''
        if draw(st.integers(0, 4)) == 0 and len(set(target_vars)) >= 2:
            dv = draw(st.lists(st.sampled_from(sorted(set(target_vars))), min_size=2, max_size=2, unique=True))
            dline = '$d %s $. ' % ' '.join(dv)
        elif draw(st.integers(0, 5)) == 0 and set(target_vars) and set(g.vars) - set(target_vars):
            # a restriction naming a variable that occurs in no statement of the lemma's block
            dline = '$d %s %s $. ' % (draw(st.sampled_from(sorted(set(target_vars)))), draw(st.sampled_from(sorted(set(g.vars) - set(target_vars)))))
        if hyp is not None or dline:
            lines.append('${ %s%s%s $p |- %s $= %s $. $}' % (dline, ('%s.0 $e |- %s $. ' % (label, mmgen.tstr(hyp))) if hyp is not None else '', label, mmgen.tstr(goal), proof))
        else:
            lines.append('%s $p |- %s $= %s $.' % (label, mmgen.tstr(goal), proof))
        deps = [l for l in rpn if l.startswith('lem-')]
        lemmas.append({'label': label, 'stmt': '|- ' + mmgen.tstr(goal), 'has_hyp': hyp is not None, 'has_d': bool(dline), 'nvars': len(set(target_vars)), 'deps': sorted(set(deps))})
        # later lemmas may use this one (as an axiom, or as a rule when it has a hypothesis)
        if hyp is None: g.axioms[label] = goal
        else: g.rules[label] = ([hyp], goal)
    return {'part': 'slice', 'text': '\n'.join(lines) + '\n', 'lemmas': lemmas, 'float_order': list(g.float_order)}


def compress_with_hyps(g, rpn, target_vars, ehyps, zmode):
    """mmgen.compress with essential hypotheses among the mandatory hypotheses (floats first, then $e, as in the database)."""
    mand = [v + '-is-pattern' for v in g.float_order if v in target_vars] + list(ehyps)
    labels = []
    for l in rpn:
        if l not in mand and l not in labels: labels.append(l)
    A = g.assertions()

    def arity(l):
        if l in ehyps: return 0
        if l.endswith('-is-pattern') and l[:-11] in g.vars: return 0
        if l in ('imp-is-pattern', 'app-is-pattern'): return 2
        if l.endswith('-is-pattern'):
            h = '\\' + l[:-11]
            return len(g.ctors[h]) if h in g.ctors else len(g.notations[h][0])
        return len(g.mand_vars(l)) + len(A[l][0])

    starts = [0] * len(rpn); stack = []
    for i, l in enumerate(rpn):
        s = i
        for _ in range(arity(l)): s = stack.pop()
        stack.append(s); starts[i] = s
    import collections

    count = collections.Counter(tuple(rpn[starts[i]:i + 1]) for i in range(len(rpn)))
    out = []; saved = {}; nsaved = [0]

    def emit_range(lo, hi):
        key = tuple(rpn[lo:hi + 1])
        if key in saved:
            out.append(refmm.encode_num(len(mand) + len(labels) + saved[key] + 1)); return
        ends = []; j = hi - 1
        for _ in range(arity(rpn[hi])):
            ends.append(j); j = starts[j] - 1
        for e in reversed(ends): emit_range(starts[e], e)
        l = rpn[hi]
        out.append(refmm.encode_num(mand.index(l) + 1 if l in mand else len(mand) + labels.index(l) + 1))
        if hi > lo and count[key] > 1 and (zmode == 'all' or (zmode == 'random' and g.rnd.random() < 0.5)):
            out.append('Z'); saved[key] = nsaved[0]; nsaved[0] += 1

    emit_range(0, len(rpn) - 1)
    return '( ' + ' '.join(labels) + ' ) ' + ''.join(out)


def body(c, stats: Stats):
    from proof_generation.metamath.ast import Encoder
    from proof_generation.metamath.parser import parse_database

    text = c['text']
    if c['part'] == 'rt':
        try:
            db1 = parse_database(text)
        except Exception as e:
            # not every generated text is in the grammar (e.g. ( f ) with no argument): those are not round-trip inputs
            stats.excluded['rt-text-not-parsed:%s' % type(e).__name__] += 1
            return
        t2 = Encoder.encode_string(db1)
        try:
            db2 = parse_database(t2)
        except Exception as e:
            raise Violation('the printed form of a parsed database does not parse (%s: %s)\ninput:\n%s\nprinted:\n%s' % (type(e).__name__, str(e)[:200], text, t2), c, 'rt-reparse')
        stats.case(text, ('${' in text and '$p' in text) or bool(c.get('long')), ['rt'] + (['rt-long-statement'] if c.get('long') else []) + (['rt-block'] if '${' in text else []) + (['rt-compressed'] if '$= (' in ' '.join(text.split()) else []),
                   {'text': ' '.join(text.split())[:300]})
        if db1 != db2:
            raise Violation('parse(print(parse(t))) differs from parse(t)\ninput:\n%s\nprinted:\n%s' % (text, t2), c, 'rt-differs')
        t3 = Encoder.encode_string(db2)
        if t3 != t2:
            raise Violation('printing is not idempotent\nfirst:\n%s\nsecond:\n%s' % (t2, t3), c, 'rt-idempotent')
        # history: parsing is a function of the text - another database parsed in between (one that declares this database's
        # constants as variables and its variables as constants) must not change what the printed text parses to
        other = '$c %s $.\n$v %s $.\n' % (' '.join(VARS + ['zz']), ' '.join(CONSTS))
        try:
            parse_database(other)
        except Exception as e:
            raise Violation('a small database with unusual variable names does not parse: %s' % str(e)[:200], dict(c, other=other), 'rt-other')
        try:
            db4 = parse_database(t2)
        except Exception as e:
            raise Violation('after another database was parsed in the same process, the printed form no longer parses (%s)\nprinted:\n%s\nother:\n%s' % (str(e)[:200], t2, other), c, 'rt-history')
        if db4 != db1:
            raise Violation('after another database was parsed in the same process, parse(print(db)) differs from db\ninput:\n%s\nother database:\n%s' % (text, other), c, 'rt-history')
        return
    # slice
    from proof_generation.metamath.metamath_extract_slice import slice_database, syntax_dependencies

    try:
        refmm.parse_and_verify(text)
    except Exception as e:
        stats.excluded['slice-generator-invalid-database'] += 1
        return
    db = parse_database(text)
    labels = [l['label'] for l in c['lemmas']]
    try:
        slices = dict(slice_database(db, syntax_dependencies(db), include=set(labels), exclude=set()))
    except Exception as e:
        raise Violation('slice_database raised %s: %s\n%s' % (type(e).__name__, str(e)[:200], text), c, 'slice-raise')
    for lem in c['lemmas']:
        label = lem['label']
        nt = lem['has_hyp'] or lem['has_d'] or lem['nvars'] >= 2 or bool(lem['deps'])
        if label not in slices:
            raise Violation('no slice was produced for lemma %s\n%s' % (label, text), c, 'slice-missing')
        stext = Encoder.encode_string(slices[label])
        stats.case(stext, nt, ['slice'] + (['slice-hyp'] if lem['has_hyp'] else []) + (['slice-$d'] if lem['has_d'] else []) + (['slice-deps'] if lem['deps'] else []) + ['slice-vars-%d' % min(lem['nvars'], 3)],
                   {'lemma': label, 'statement': lem['stmt'], 'slice': ' '.join(stext.split())[:400]})
        try:
            parse_database(stext)
        except Exception as e:
            raise Violation('the slice for %s does not re-parse (%s)\n%s' % (label, str(e)[:200], stext), dict(c, lemma=label), 'slice-reparse')
        try:
            res = refmm.parse_and_verify(stext, verify_labels={label})
        except Exception as e:
            raise Violation('the slice for %s is not self-contained / its proof no longer verifies: %s\nslice:\n%s\noriginal:\n%s' % (label, str(e)[:300], stext, text), dict(c, lemma=label), 'slice-verify')
        if label not in res or ' '.join(res[label]) != lem['stmt']:
            raise Violation('the slice for %s proves %s, original statement %s' % (label, res.get(label), lem['stmt']), dict(c, lemma=label), 'slice-statement')
        floats = [ln.split()[0][: -len('-is-pattern')] for ln in stext.splitlines() if ' $f ' in ln]
        want = [v for v in c['float_order'] if v in floats]
        if floats != want:
            raise Violation('floating hypotheses in the slice for %s are in order %s, original order %s' % (label, floats, want), dict(c, lemma=label), 'slice-float-order')


def shard(stats: Stats, shard_i, nshards, seed, tier):
    n = {'quick': 350, 'thorough': 12000}[tier]
    common.run_given(stats, seed, n, cases(), body)


def run(tier, t0):
    import glob, json, os

    stats = Stats()
    for f in sorted(glob.glob(os.path.join(common.VERIF, 'corpus', PROP, '*.json'))):
        j = json.load(open(f, encoding='utf-8'))
        try:
            body({k: v for k, v in j.get('case', j).items() if k != 'lemma'}, stats)
        except Violation as v:
            stats.violation(v)
    common.run_sharded(stats, 'checks.c17', 'shard', common.NPROC, tier)
    return common.finish(PROP, tier, stats, RULE, ASSUME, t0)


def replay(case):
    body({k: v for k, v in case.items() if k != 'lemma'}, Stats())
