"""C19 — pretty-printed notation shows the arguments it depends on; pretty files mirror binary files.

Parts
  render  every shipped notation (propositional, definedness, Kore, generated n-ary, sorted / Kore quantifier, forall) applied to
          two argument tuples that differ in exactly one position, drawn from a pool of patterns with pairwise distinct
          renderings: if the two applications expand to different patterns their pretty() strings must differ
  steps   generated modules serialised in binary and in pretty format (both optimise settings): the pretty gamma/claim/proof files
          are parsed into steps and must correspond one-to-one, in order, to the decoded instructions of the binary files
          (opcode, variable ids, Load index, Instantiate key list, Generalization variable, metavariable constraints,
          a consistent symbol name <-> number map)
"""
from __future__ import annotations

import itertools

import re
import shutil
import tempfile

from hypothesis import strategies as st

from lib import common, gens, modules as MD, notations, refmachine as M, refml as R
from lib.common import Stats, Violation

PROP = 'C19'
RULE = (
    'render: all shipped notations x Hypothesis-drawn argument tuple pairs differing in one position (pool of 14 patterns with pairwise '
    'distinct renderings); steps: Hypothesis-generated modules x optimise off/on. non-trivial = (render) pair differing in a position '
    'the definition depends on, (steps) module with >= 20 instructions; distinct by (notation, tuples) / binary bytes'
)
ASSUME = [
    'pretty_options as ProofExp.pretty_options builds them (notations keyed by definition)',
    'pretty files: one instruction per non-indented line starting with an instruction keyword; tab-indented lines are stack dumps',
]
KEYWORDS = {'EVar': 2, 'SVar': 3, 'Symbol': 4, 'Implies': 5, 'App': 6, 'Mu': 7, 'Exists': 8, 'MetaVar': 9, 'ESubst': 10, 'SSubst': 11,
            'Prop1': 12, 'Prop2': 13, 'Prop3': 14, 'Quantifier': 15, 'ModusPonens': 21, 'Generalization': 22, 'Instantiate': 26,
            'Pop': 27, 'Save': 28, 'Load': 29, 'Publish': 30}
CONT = ('eFresh,', 'sFresh,', 'pos,', 'neg,', 'appctx,')


def pool():
    import proof_generation.pattern as P

    return [P.EVar(0), P.EVar(1), P.EVar(7), P.SVar(0), P.SVar(3), P.Symbol('s0'), P.Symbol('s1'), P.MetaVar(0), P.MetaVar(1), P.MetaVar(2), P.MetaVar(5),
            P.Implies(P.EVar(0), P.EVar(1)), P.App(P.Symbol('s0'), P.EVar(2)), P.Exists(2, P.EVar(2)),
            # look-alikes: same fields, different constructor (the generated dataclass hashes coincide)
            P.SVar(1), P.App(P.EVar(0), P.EVar(1)), P.Mu(2, P.EVar(2)), P.ESubst(P.MetaVar(0), P.EVar(1), P.Symbol('s0')), P.SSubst(P.MetaVar(0), P.SVar(1), P.Symbol('s0'))]


def all_notations():
    groups, by_label, defs = notations.registry()
    return [n for k in ('prop', 'defn', 'kore', 'gen', 'wide') for n in groups[k]]


@st.composite
def cases(draw):
    if draw(st.booleans()):
        nots = all_notations()
        n = draw(st.integers(0, len(nots) - 1))
        ar = nots[n].arity
        npool = len(pool())
        a = [draw(st.integers(0, npool - 1)) for _ in range(ar)]
        b = list(a)
        if ar:
            i = draw(st.integers(0, ar - 1))
            b[i] = draw(st.integers(0, npool - 1).filter(lambda x: x != a[i]))
        return {'part': 'render', 'notation': n, 'a': a, 'b': b}
    if draw(st.integers(0, 2)) == 0:
        # an interpreter-level call trace (every instruction the serialiser can emit, empty instantiations included), run once
        # under the serialising and once under the pretty-printing interpreter
        from proof_generation.basic_interpreter import BasicInterpreter
        from proof_generation.interpreter import ExecutionPhase
        from lib import histories as H

        axioms, specs = H.draw_setup(draw)
        r = H.Runner(BasicInterpreter(ExecutionPhase.Gamma), axioms, specs)
        trace = []
        for _ in range(draw(st.integers(3, 25))):
            step = H.draw_step(draw, r)
            try:
                r.apply(step)
            except H.Skip:
                continue
            except Exception:
                break
            trace.append(step)
        return {'part': 'hist-steps', 'setup': H.setup_to_json(axioms, specs), 'trace': trace}
    return {'part': 'steps', 'desc': draw(MD.module_descs(with_apps=True, rich=True, allow_taut=False, sym_pool=('a', 'b', 'c')))}


def parse_pretty(text):
    """-> list of (keyword, rest-of-line, continuation lines)"""
    steps = []
    for line in text.split('\n'):
        if not line.strip() or line.startswith('\t'):
            continue
        head = line.split(' ', 1)[0]
        kw = re.match(r'[A-Za-z0-9]+', head)
        # the first constraint list of a MetaVar is glued to the id without a separator
        m = re.match(r'MetaVar (\d+)(.*)$', line)
        if m:
            steps.append(['MetaVar', m.group(1), [m.group(2)] if m.group(2).strip() else []])
            continue
        if line.startswith(CONT) and steps and steps[-1][0] == 'MetaVar':
            steps[-1][2].append(line)
            continue
        if kw and kw.group(0) in KEYWORDS and head == kw.group(0):
            steps.append([head, line[len(head):].strip(), []])
            continue
        steps.append(['?', line, []])
    return steps


def constraint_lists(cont):
    out = {'eFresh': [], 'sFresh': [], 'pos': [], 'neg': [], 'appctx': []}
    for line in cont:
        m = re.match(r'\s*(eFresh|sFresh|pos|neg|appctx), len=(\d+) (.*)$', line)
        if not m:
            return None
        items = m.group(3).split()
        if len(items) != int(m.group(2)):
            return None
        out[m.group(1)] = [int(x[1:]) for x in items]
    return [out['eFresh'], out['sFresh'], out['pos'], out['neg'], out['appctx']]


def align(pretty_text, binary, symmap, where, case):
    steps = parse_pretty(pretty_text)
    try:
        ops = M.decode(binary)
    except M.Reject as e:
        raise Violation('%s: binary file does not decode (%s)' % (where, e), case, 'steps-decode')
    fail = lambda i, msg: Violation('%s: step %d: %s\npretty steps: %s\nbinary instructions: %s'
                                    % (where, i, msg, [(s[0], s[1]) for s in steps[max(0, i - 3): i + 3]], [(M.OPNAMES[o], a) for o, a in ops[max(0, i - 3): i + 3]]), case, 'steps-mismatch')
    if len(steps) != len(ops):
        raise Violation('%s: the pretty file lists %d steps, the binary file has %d instructions\npretty: %s\nbinary: %s'
                        % (where, len(steps), len(ops), [s[0] for s in steps][:60], [M.OPNAMES[o] for o, _ in ops][:60]), case, 'steps-count')
    for i, (s, (op, args)) in enumerate(zip(steps, ops)):
        name = M.OPNAMES[op]
        kw, rest, cont = s
        if kw == '?':
            raise fail(i, 'unrecognised pretty line %r' % rest)
        if name == 'CleanMetaVar':
            if kw != 'MetaVar' or int(rest) != args[0] or cont:
                raise fail(i, 'binary CleanMetaVar %s vs pretty %s %s %s' % (args, kw, rest, cont))
            continue
        if kw != name:
            raise fail(i, 'pretty %s vs binary %s' % (kw, name))
        if name in ('EVar', 'SVar', 'Exists', 'Mu', 'Generalization'):
            if int(rest) != args[0]: raise fail(i, '%s operand %s vs %s' % (name, rest, args[0]))
        elif name in ('ESubst', 'SSubst'):
            if rest != 'id=%d' % args[0]: raise fail(i, '%s operand %s vs %s' % (name, rest, args[0]))
        elif name == 'Symbol':
            if rest in symmap['fwd']:
                if symmap['fwd'][rest] != args[0]: raise fail(i, 'symbol %r numbered %d here but %d before' % (rest, args[0], symmap['fwd'][rest]))
            elif args[0] in symmap['bwd']:
                raise fail(i, 'number %d used for symbols %r and %r' % (args[0], rest, symmap['bwd'][args[0]]))
            else:
                symmap['fwd'][rest] = args[0]; symmap['bwd'][args[0]] = rest
        elif name == 'MetaVar':
            cl = constraint_lists(cont)
            if cl is None or int(rest) != args[0] or [list(x) for x in args[1:]] != cl:
                raise fail(i, 'MetaVar %s %s vs binary %s' % (rest, cont, args))
        elif name == 'Instantiate':
            keys = [int(x) for x in rest.split(',') if x.strip()]
            if list(reversed(keys)) != list(args[1]):
                raise fail(i, 'Instantiate keys %s (pretty, call order) vs %s (binary, reversed)' % (keys, list(args[1])))
        elif name == 'Load':
            if int(rest.rsplit('=', 1)[1]) != args[0]: raise fail(i, 'Load index %s vs %d' % (rest.rsplit('=', 1)[1], args[0]))
    return len(ops)


def body(c, stats: Stats):
    import proof_generation.pattern as P
    from proof_generation.proof import ProofExp

    if c['part'] == 'render':
        nots = all_notations()
        n = nots[c['notation']]
        pl = pool()
        opts = P.PrettyOptions(notations={x.definition: x for x in nots})
        a = [pl[i] for i in c['a']]; b = [pl[i] for i in c['b']]
        pa, pb = n(*a), n(*b)
        ea, eb = R.from_repo(pa), R.from_repo(pb)
        try:
            sa, sb = pa.pretty(opts), pb.pretty(opts)
        except Exception as e:
            raise Violation('pretty() of %s%s raised %s: %s' % (n.label, [str(x) for x in a], type(e).__name__, str(e)[:200]), c, 'render-raise')
        depends = ea != eb
        stats.case(('render', notations.label_of(n), tuple(c['a']), tuple(c['b'])), depends, ['render', 'arity-%d' % min(n.arity, 4), 'depends' if depends else 'independent-position'],
                   {'notation': notations.label_of(n), 'args_a': [str(x) for x in a], 'args_b': [str(x) for x in b], 'rendered_a': sa, 'rendered_b': sb})
        if depends and sa == sb:
            raise Violation('notation %s: applications to %s and to %s denote different patterns but are both printed as %r'
                            % (notations.label_of(n), [str(x) for x in a], [str(x) for x in b], sa), c, 'render-same:' + n.label)
        # the same application reached through instantiate (one argument left open as a metavariable, then filled in): the
        # format string is positional, so the rendering must not depend on how the argument map was built
        diff = [j for j in range(n.arity) if c['a'][j] != c['b'][j]]
        if diff:
            i = diff[0]
            hole = P.MetaVar(9)
            if all(hole != x for x in a):
                via = n(*[hole if j == i else a[j] for j in range(n.arity)]).instantiate({9: a[i]})
                sv = via.pretty(opts)
                stats.classes['render-via-instantiate'] += 1
                if sv != sa and R.from_repo(via) == ea:
                    others = [perm for perm in itertools.permutations(range(n.arity)) if n.arity <= 4 and n(*[a[k] for k in perm]).pretty(opts) == sv]
                    raise Violation('notation %s applied to %s is printed as %r, but the same application reached through instantiate (argument %d filled in later) is printed as %r%s'
                                    % (notations.label_of(n), [str(x) for x in a], sa, i, sv, (' - the rendering of the arguments permuted by %s' % (others[0],)) if others else ''), c, 'render-via-instantiate:' + n.label)
        return
    if c['part'] == 'hist-steps':
        import io
        from proof_generation.claim import Claim
        from proof_generation.interpreter import ExecutionPhase
        from proof_generation.pretty_printing_interpreter import PrettyPrintingInterpreter
        from proof_generation.serializing_interpreter import SerializingInterpreter
        from lib import histories as H

        class BS(io.BytesIO):
            def close(self): pass

        class TS(io.StringIO):
            def close(self): pass

        axioms, specs = H.setup_from_json(c['setup'])
        cps = H.Runner.claim_patterns(axioms, specs)
        outs = {}
        for kind in ('binary', 'pretty'):
            sinks = [BS(), BS(), BS()] if kind == 'binary' else [TS(), TS(), TS()]
            cls = SerializingInterpreter if kind == 'binary' else PrettyPrintingInterpreter
            it = cls(ExecutionPhase.Gamma, sinks[0], [Claim(x) for x in cps], sinks[1], sinks[2])
            r = H.Runner(it, axioms, specs)
            for step in c['trace']:
                try:
                    r.apply(step)
                except H.Skip:
                    continue
                except Exception:
                    stats.excluded['trace-refused-by-interpreter'] += 1
                    return
            outs[kind] = [x.getvalue() for x in sinks]
        symmap = {'fwd': {}, 'bwd': {}}
        total = 0
        for phase in range(3):
            total += align(outs['pretty'][phase], outs['binary'][phase], symmap, 'call trace, phase %d' % phase, c)
        stats.case(b'|'.join(outs['binary']), total >= 20, ['hist-steps', 'instr>=20' if total >= 20 else 'instr<20']
                   + (['has-empty-instantiate'] if any(s[0] == 'instantiate_top' and not s[1] for s in c['trace']) else []),
                   {'instructions': total, 'trace': c['trace'][:12]})
        return
    desc = c['desc']
    try:
        module, built = MD.build_module(desc)
    except Exception:
        stats.excluded['toolkit-refused-while-building'] += 1
        return
    d = tempfile.mkdtemp(prefix='c19_')
    try:
        for opt in (False, True):
            try:
                bins = MD.serialize(module, d, 'b%d' % int(opt), 'binary', opt)
                prs = MD.serialize(module, d, 'p%d' % int(opt), 'pretty', opt)
            except (ValueError, OverflowError):
                stats.excluded['refused-by-toolkit'] += 1
                continue
            symmap = {'fwd': {}, 'bwd': {}}
            total = 0
            for phase, (bb, pp) in enumerate(zip(bins, prs)):
                total += align(pp.decode('utf-8'), bb, symmap, 'optimize=%s phase %d' % (opt, phase), dict(c, optimize=opt))
            stats.case(b'|'.join(bins), total >= 20, ['steps', 'optimize-%s' % opt, 'instr>=20' if total >= 20 else 'instr<20'],
                       {'instructions': total, 'optimize': opt, 'claims': [x['kind'] for x in desc.get('claims', [])]})
    finally:
        shutil.rmtree(d, ignore_errors=True)


def shard(stats: Stats, shard_i, nshards, seed, tier):
    n = {'quick': 50, 'thorough': 3000}[tier]
    common.run_given(stats, seed, n, cases(), body)
    # every notation x every single-position change over the pool (bounded exhaustive) in the thorough tier, sampled in quick
    nots = all_notations()
    pl = pool()
    npool = len(pl)
    k = 0
    for ni, n_ in enumerate(nots):
        for pos in range(n_.arity):
            for x in range(npool):
                for y in range(x + 1, npool):
                    k += 1
                    if k % nshards != shard_i: continue
                    if tier == 'quick' and (x + y) % 5 and hash(pl[x]) != hash(pl[y]): continue
                    a = [(x + 3 * j) % npool for j in range(n_.arity)]; a[pos] = x
                    b = list(a); b[pos] = y
                    try:
                        body({'part': 'render', 'notation': ni, 'a': a, 'b': b}, stats)
                    except Violation as v:
                        stats.violation(v)
                        return


def run(tier, t0):
    import glob, json, os

    stats = Stats()
    for f in sorted(glob.glob(os.path.join(common.VERIF, 'corpus', PROP, '*.json'))):
        j = json.load(open(f, encoding='utf-8'))
        try:
            body({k: v for k, v in j.get('case', j).items() if k != 'optimize'}, stats)
        except Violation as v:
            stats.violation(v)
    common.run_sharded(stats, 'checks.c19', 'shard', common.NPROC, tier)
    return common.finish(PROP, tier, stats, RULE, ASSUME, t0)


def replay(case):
    body({k: v for k, v in case.items() if k != 'optimize'}, Stats())
