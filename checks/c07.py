"""C07 — Python proof rules apply exactly when the documented rule applies.

For modus_ponens, exists_generalization and instantiate of BasicInterpreter, StatefulInterpreter (stack preloaded the
way the API demands) and the ProofExp-level rules (modus_ponens, exists_generalization, dynamic_inst evaluated on a
BasicInterpreter): "raise, or return exactly the documented conclusion".
"""
from __future__ import annotations

from hypothesis import strategies as st

from lib import common, gens, notations, refml as R
from lib.common import Stats, Violation
from checks.c12 import mixed, mutate

PROP = 'C07'
RULE = (
    'Hypothesis-generated premises with notation, metavariables and pending substitutions, in three families per rule: '
    'applicable (also via differently sugared but equal antecedents), near-miss (one leaf / one constraint list changed), '
    'inapplicable (non-implication, unrelated antecedent, generalised variable free in the consequent directly / under '
    'notation / through an unconstrained metavariable / through a plug). non-trivial = inapplicable case on which the rule '
    'raised, or applicable case whose returned conclusion was compared with the reference; distinct by (rule, interpreter, premises)'
)
ASSUME = [
    'applicability and conclusions are decided by lib/refml.py on full expansions (documented e_fresh for Generalization)',
    'raising is always allowed; metavariable constraint checking at instantiation is not demanded',
]
CFG = gens.Cfg(ids=(0, 1, 2), nsyms=2)
LEVELS = ('basic', 'stateful', 'proofexp')


def _pool():
    groups, by_label, defs = notations.registry()
    return groups['prop'] + groups['defn'][:4] + groups['extra'] + groups['gen'][4:8], by_label, defs


def _binders(p, acc=None):
    acc = set() if acc is None else acc
    if p[0] in ('E', 'M'):
        acc.add((p[0], p[1])); _binders(p[2], acc)
    elif p[0] in ('i', 'a'):
        _binders(p[1], acc); _binders(p[2], acc)
    elif p[0] in ('es', 'ss'):
        _binders(p[2], acc); _binders(p[3], acc)
    return acc


BIG = {0: 0, 1: 300, 2: 70000}


def _big(i):
    return int(str(BIG.get(i, i)))     # a fresh int object each time (CPython only shares ints up to 256)


def bigify(c):
    """The same case over variable ids 0 / 300 / 70000: ids beyond one byte and beyond the interpreter's shared small ints"""
    out = {}
    for k, v in c.items():
        if k in ('left', 'right', 'prem', 'conc', 'part', 'b'): out[k] = gens.rename_var_ids(v, _big)
        elif k in ('delta', 'more'): out[k] = [(i, gens.rename_var_ids(a, _big)) for i, a in v]
        elif k == 'x': out[k] = _big(v)
        else: out[k] = v
    out['big_ids'] = True
    return out


@st.composite
def cases(draw):
    c = draw(_cases())
    c['shared_interpreter'] = draw(st.booleans())
    return bigify(c) if draw(st.integers(0, 6)) == 0 else c


@st.composite
def _cases(draw):
    pool, _, defs = _pool()
    rule = draw(st.sampled_from(['mp', 'mp', 'gen', 'gen', 'inst']))
    level = draw(st.sampled_from(LEVELS))
    sug = lambda d: gens.draw_sugared(draw, CFG, draw(st.integers(0, d)), pool, True, defs)
    if rule == 'mp':
        a = sug(2); b = sug(2)
        fam = draw(st.sampled_from(['same', 'resugared', 'nearmiss', 'unrelated', 'nonimp', 'instantiated', 'instantiated']))
        if fam == 'instantiated':
            # antecedent and minor premise are a partial notation application and the same object instantiated further
            body = sug(2)
            keys = sorted(draw(st.sets(st.sampled_from(CFG.ids), min_size=1, max_size=2)))
            part = ('inst', body, tuple((k, sug(1)) for k in keys))
            more = [(k, sug(1)) for k in sorted(draw(st.sets(st.sampled_from(CFG.ids), min_size=1, max_size=2)))]
            return {'rule': rule, 'level': level, 'fam': fam, 'part': part, 'more': more, 'b': b, 'partial_is_antecedent': draw(st.booleans())}
        if fam == 'same': left = ('i', a, b)
        elif fam == 'resugared': left = ('i', mixed(draw, a, defs), b)
        elif fam == 'nearmiss': left = ('i', mutate(draw, a), b)
        elif fam == 'unrelated': left = ('i', sug(2), b)
        else: left = draw(st.sampled_from([('a', a, b), ('E', 0, ('i', a, b)), a, ('n', pool[1], (a,))]))
        return {'rule': rule, 'level': level, 'fam': fam, 'left': left, 'right': a}
    if rule == 'gen':
        l = sug(2); r = sug(3)
        x = draw(st.sampled_from(CFG.ids))
        fam = draw(st.sampled_from(['imp', 'imp', 'imp', 'nonimp']))
        prem = ('i', l, r) if fam == 'imp' else draw(st.sampled_from([('a', l, r), r]))
        return {'rule': rule, 'level': level, 'fam': fam, 'prem': prem, 'x': x}
    if draw(st.integers(0, 3)) == 0:
        # directed: a pending substitution on x_k (X_k) over a metavariable that delta replaces by an application of a notation
        # whose body *binds* that very variable around its argument, the argument mentioning it free
        groups, _, _ = notations.registry()
        binders = groups['gen'][0:6] + groups['extra'][2:4] + groups['wide'][2:5]
        n = draw(st.sampled_from(binders))
        d = R.from_repo(n.definition)
        bound = sorted(_binders(d))
        kind, k = draw(st.sampled_from(bound))
        var = ('e', k) if kind == 'E' else ('s', k)
        i = draw(st.sampled_from(CFG.ids))
        arg = lambda: draw(st.sampled_from([var, ('a', ('y', 0), var), ('i', var, ('m', draw(st.sampled_from(CFG.ids)), (), (), (), (), ())), sug(1)]))
        value = ('n', n, tuple(arg() for _ in range(n.arity)))
        mv = ('m', i, (), (), (), (), ())
        pend = ('es' if kind == 'E' else 'ss', k, mv, sug(1))
        conc = draw(st.sampled_from([('i', mv, pend), ('i', pend, sug(1)), pend, ('i', ('n', n, tuple(mv for _ in range(n.arity))), pend)]))
        delta = [(i, value)] + [(j, sug(1)) for j in draw(st.lists(st.sampled_from([x for x in CFG.ids if x != i]), max_size=1))]
        return {'rule': rule, 'level': level, 'fam': 'inst', 'conc': conc, 'delta': delta, 'directed': 'binder-notation'}
    conc = sug(3)
    keys = draw(st.lists(st.sampled_from(CFG.ids), max_size=3, unique=True))
    delta = [(k, sug(2)) for k in keys]
    return {'rule': rule, 'level': level, 'fam': 'inst', 'conc': conc, 'delta': delta}


def case_json(c):
    out = {}
    for k, v in c.items():
        if k in ('left', 'right', 'prem', 'conc', 'part', 'b'): out[k] = gens.sugared_to_json(v)
        elif k in ('delta', 'more'): out[k] = [[i, gens.sugared_to_json(a)] for i, a in v]
        else: out[k] = v
    return out


def case_from_json(j):
    _, by_label, _ = notations.registry()
    out = {}
    for k, v in j.items():
        if k in ('left', 'right', 'prem', 'conc', 'part', 'b'): out[k] = gens.sugared_from_json(v, by_label)
        elif k in ('delta', 'more'): out[k] = [(i, gens.sugared_from_json(a, by_label)) for i, a in v]
        else: out[k] = v
    return out


def instantiated_pair(c):
    """(left premise conclusion, right premise conclusion) sharing the notation body object, as Instantiate.instantiate produces"""
    import proof_generation.pattern as P

    part = gens.build_repo(c['part'])
    fuller = part.instantiate({k: gens.build_repo(v) for k, v in c['more']})
    ante, minor = (part, fuller) if c['partial_is_antecedent'] else (fuller, part)
    return P.Implies(ante, gens.build_repo(c['b'])), minor


_SHARED_BASIC = None


def call_rule(c):
    """Returns ('ok', conclusion_pattern) or ('raise', type)."""
    from proof_generation.basic_interpreter import BasicInterpreter
    from proof_generation.interpreter import ExecutionPhase
    from proof_generation.proof import ProofExp, ProofThunk
    from proof_generation.proved import Proved
    from proof_generation.stateful_interpreter import StatefulInterpreter
    import proof_generation.pattern as P

    level, rule = c['level'], c['rule']
    # history: half of the basic-level calls go through one long-lived interpreter object (per process), so that state an
    # interpreter keeps between calls - caches, memo tables keyed by object identity - meets many different premises
    global _SHARED_BASIC
    if _SHARED_BASIC is None:
        _SHARED_BASIC = BasicInterpreter(ExecutionPhase.Proof)
    basic = (lambda: _SHARED_BASIC) if c.get('shared_interpreter') else (lambda: BasicInterpreter(ExecutionPhase.Proof))

    def thunk(pat):
        return ProofThunk(lambda interp: Proved(pat), pat)

    try:
        if rule == 'mp':
            if c['fam'] == 'instantiated':
                left, right = instantiated_pair(c)
            else:
                left = gens.build_repo(c['left']); right = gens.build_repo(c['right'])
            if level == 'basic':
                return ('ok', basic().modus_ponens(Proved(left), Proved(right)).conclusion)
            if level == 'stateful':
                it = StatefulInterpreter(ExecutionPhase.Proof)
                pl, pr = Proved(left), Proved(right)
                it.stack = [pl, pr]
                res = it.modus_ponens(pl, pr)
                if it.stack != [res]:
                    return ('badstack', it.stack)
                return ('ok', res.conclusion)
            t = ProofExp().modus_ponens(thunk(left), thunk(right))
            return ('ok', t(BasicInterpreter(ExecutionPhase.Proof)).conclusion, t.conc)
        if rule == 'gen':
            if level == 'basic' and c.get('shared_interpreter'):
                # warm-up on the same interpreter: the same premise with the generalised variable renamed away (applicable), a few
                # times, dropped again - objects of the real premise are then likely to reuse the addresses of the dropped ones
                xv = c['x']
                for _ in range(3):
                    twin = gens.build_repo(gens.rename_var_ids(c['prem'], lambda i: 77 if i == xv else i))
                    try:
                        basic().exists_generalization(Proved(twin), P.EVar(xv))
                    except Exception:  # noqa: BLE001 - the warm-up premise need not be an implication
                        pass
                    del twin
            prem = gens.build_repo(c['prem']); var = P.EVar(c['x'])
            if level == 'basic':
                return ('ok', basic().exists_generalization(Proved(prem), var).conclusion)
            if level == 'stateful':
                it = StatefulInterpreter(ExecutionPhase.Proof)
                pp = Proved(prem)
                it.stack = [pp]
                res = it.exists_generalization(pp, var)
                if it.stack != [res]:
                    return ('badstack', it.stack)
                return ('ok', res.conclusion)
            t = ProofExp().exists_generalization(thunk(prem), var)
            return ('ok', t(BasicInterpreter(ExecutionPhase.Proof)).conclusion, t.conc)
        conc = gens.build_repo(c['conc'])
        delta = {k: gens.build_repo(v) for k, v in c['delta']}
        if level == 'basic':
            return ('ok', basic().instantiate(Proved(conc), delta).conclusion)
        if level == 'stateful':
            it = StatefulInterpreter(ExecutionPhase.Proof)
            pp = Proved(conc)
            it.stack = list(delta.values()) + [pp]
            res = it.instantiate(pp, delta)
            if it.stack != [res]:
                return ('badstack', it.stack)
            return ('ok', res.conclusion)
        t = ProofExp().dynamic_inst(thunk(conc), dict(delta))
        return ('ok', t(BasicInterpreter(ExecutionPhase.Proof)).conclusion, t.conc)
    except Exception as e:  # raising is the rule's way of refusing
        return ('raise', type(e).__name__)


def body(c, stats: Stats):
    _, _, defs = _pool()
    rule = c['rule']
    ex = lambda t: gens.expand_sugared(t, defs)
    if rule == 'mp' and c['fam'] == 'instantiated':
        l_obj, r_obj = instantiated_pair(c)
        el, er = R.from_repo(l_obj), R.from_repo(r_obj)
        applicable = el[1] == er
        expected = el[2] if applicable else None
        desc = 'modus_ponens(%s ; %s)' % (R.show(el), R.show(er))
    elif rule == 'mp':
        el, er = ex(c['left']), ex(c['right'])
        applicable = el[0] == 'i' and el[1] == er
        expected = el[2] if applicable else None
        desc = 'modus_ponens(%s ; %s)' % (gens.show_sugared(c['left']), gens.show_sugared(c['right']))
    elif rule == 'gen':
        ep = ex(c['prem'])
        applicable = ep[0] == 'i' and R.e_fresh(ep[2], c['x'])
        expected = R.I(R.EX(c['x'], ep[1]), ep[2]) if applicable else None
        desc = 'exists_generalization(%s ; x%d)' % (gens.show_sugared(c['prem']), c['x'])
    else:
        ec = ex(c['conc'])
        applicable = True
        if not gens.admissible_delta(ec, {k: ex(v) for k, v in c['delta']}):
            # the toolkit does not check declared constraints (callers must respect them, DESIGN 2.3); with an inadmissible
            # plug the result depends on the order in which pending substitutions are resolved, so no conclusion is "documented"
            stats.excluded['inst-inadmissible-delta'] += 1
            return
        expected = R.instantiate(ec, {k: ex(v) for k, v in c['delta']})
        desc = 'instantiate(%s ; %s)' % (gens.show_sugared(c['conc']), {k: gens.show_sugared(v) for k, v in c['delta']})
    res = call_rule(c)
    returned = res[0] == 'ok'
    cls = [rule, 'level-' + c['level'], '%s-%s' % (rule, c['fam']),
           ('applicable-' if applicable else 'inapplicable-') + ('returned' if returned else 'raised')]
    if rule == 'gen' and not applicable and ex(c['prem'])[0] == 'i':
        cls.append('gen-var-free-in-consequent')
    nt = (not applicable and not returned) or (applicable and returned)
    if c.get('big_ids'): cls = cls + ['ids-0/300/70000']
    stats.case((rule, c['level'], repr(case_json(c))), nt, cls,
               {'rule': desc, 'interpreter': c['level'], 'applicable': applicable, 'returned': returned})
    if res[0] == 'badstack':
        raise Violation('[%s/%s] %s left the tracker stack as %s' % (rule, c['level'], desc, [str(x) for x in res[1]]), case_json(c), rule + '-stack')
    if not returned:
        return
    got = R.from_repo(res[1])
    if not applicable:
        raise Violation('[%s/%s] %s returned %s although the rule is not applicable' % (rule, c['level'], desc, R.show(got)), case_json(c), rule + '-inapplicable')
    if got != expected:
        raise Violation('[%s/%s] %s returned %s, the documented rule yields %s' % (rule, c['level'], desc, R.show(got), R.show(expected)), case_json(c), rule + '-conclusion')
    if len(res) > 2 and R.from_repo(res[2]) != expected:
        raise Violation('[%s/%s] %s advertises conclusion %s, the documented rule yields %s' % (rule, c['level'], desc, R.show(R.from_repo(res[2])), R.show(expected)), case_json(c), rule + '-advertised')


def shard(stats: Stats, shard_i, nshards, seed, tier):
    n = {'quick': 2000, 'thorough': 60000}[tier]
    common.run_given(stats, seed, n, cases(), body)


def corpus():
    import glob, json, os

    for f in sorted(glob.glob(os.path.join(common.VERIF, 'corpus', PROP, '*.json'))):
        j = json.load(open(f, encoding='utf-8'))
        yield j.get('case', j)


def run(tier, t0):
    stats = Stats()
    for case in corpus():
        try:
            body(case_from_json(case), stats)
        except Violation as v:
            stats.violation(v)
    common.run_sharded(stats, 'checks.c07', 'shard', common.NPROC, tier)
    return common.finish(PROP, tier, stats, RULE, ASSUME, t0)


def replay(case):
    body(case_from_json(case), Stats())
