"""C18 — output is a deterministic function of the input.

Generated module descriptions (lib/modules.py) and Metamath databases (lib/mmgen.py) are serialised / translated in
child processes under several PYTHONHASHSEED values and after different in-process histories (other inputs serialised
before, the same input twice, reversed order).  Every output file (binary gamma/claim/proof, pretty gamma/claim/proof,
optimise off/on) must be byte-identical across all of them.
"""
from __future__ import annotations

import json
import os
import subprocess
import sys

from hypothesis import strategies as st

from lib import common, gens, mmgen, modules as MD, notations, refmm
from lib.common import Stats, Violation

PROP = 'C18'
RULE = (
    'Hypothesis-generated module descriptions x {binary, pretty} x {optimize off, on} and generated Metamath databases; each job list '
    'is run in child processes under hash seeds 0..2 + 1 drawn (quick) / 0..63 + 3 drawn (thorough) in the given order, reversed, and with '
    'every job doubled; digests of all output files are compared. non-trivial = input with >= 2 symbols and >= 2 metavariables '
    '(modules) or a target with >= 2 variables (databases); distinct by input'
)
ASSUME = ['digest = SHA-256 of each output file; a child that fails for an input under one configuration but not another is also a difference']


def run_child(jobs, hashseed):
    import shutil
    import tempfile

    env = dict(os.environ, PYTHONHASHSEED=str(hashseed))
    # the parent owns the scratch directory: a child killed with its batch (per-example time limit) cannot clean up after itself
    d = tempfile.mkdtemp(prefix='c18_')
    try:
        r = subprocess.run([sys.executable, '-m', 'lib.c18_child'], input=json.dumps({'repo_src': common.REPO_SRC, 'jobs': jobs, 'tmp': d}),
                           capture_output=True, text=True, env=env, cwd=common.VERIF)
    finally:
        shutil.rmtree(d, ignore_errors=True)
    if r.returncode != 0:
        raise common.HarnessError('c18 child failed: %s' % r.stderr[-800:])
    return json.loads(r.stdout)


@st.composite
def batches(draw):
    jobs = []
    meta = {}
    n_mod = draw(st.integers(2, 3))
    for i in range(n_mod):
        desc = draw(MD.module_descs(with_apps=True, rich=True, sym_pool=('a', 'b', 'c', 'd'), allow_taut=False))  # tautology proofs: minutes in pretty mode
        # late changes: notations registered on the root (modules of one process then print with different notation sets) and
        # a module imported last; the same description is also serialised once *before* these changes and again after them
        # (same object), which must give the files of a fresh build
        from lib import histories as H_
        used = sorted(notations.label_of(n_) for n_ in H_.pool()[0] if n_.arity >= 1)   # the notations generated patterns are written with
        labels = sorted(l for l, n_ in notations.registry()[1].items() if n_.arity <= 3 and '#' not in l)
        desc['extra_notations'] = draw(st.lists(st.sampled_from(used + labels), max_size=4, unique=True))
        if draw(st.booleans()):
            desc['late_import'] = {'axioms': [gens.sugared_to_json(MD.draw_axiom(draw, MD.sym_cfg(['a', 'late']), 1)) for _ in range(draw(st.integers(1, 2)))]}
        for fmt in ('binary', 'pretty'):
            for opt in (False, True):
                jid = 'mod%d-%s-%s' % (i, fmt, 'opt' if opt else 'noopt')
                jobs.append({'id': jid, 'kind': 'module', 'desc': desc, 'fmt': fmt, 'optimize': opt})
                txt = json.dumps(desc)
                meta[jid] = {'nt': txt.count('"y"') >= 2 and txt.count('"m"') >= 2, 'cls': ['module', fmt, 'optimize' if opt else 'plain']}
                if fmt == 'pretty' and not opt:
                    # the same module with the complementary set of registered notations, printed in the same process: what one
                    # of them prints must not leak into the other (each is compared with itself across processes and job orders)
                    alt = dict(desc, extra_notations=[l for l in used if l not in desc['extra_notations']])
                    jobs.append({'id': jid + '-altnot', 'kind': 'module', 'desc': alt, 'fmt': fmt, 'optimize': opt})
                    meta[jid + '-altnot'] = {'nt': True, 'cls': ['module', fmt, 'same-module-other-notation-set']}
                if desc.get('late_import') or desc['extra_notations']:
                    jobs.append({'id': jid + '-grown', 'kind': 'module', 'desc': desc, 'fmt': fmt, 'optimize': opt, 'grow': True, 'same_as': jid})
                    meta[jid + '-grown'] = {'nt': True, 'cls': ['module', fmt, 'serialised-before-and-after-growing']}
    for i in range(1):
        rnd = mmgen.DrawRnd(draw)
        extras = draw(st.booleans())   # declarations of #Variable / #ElementVariable / #SetVariable / #Symbol variables and axioms over them
        g, goal, rpn, texts = mmgen.make(rnd, extras=extras)
        t = texts[draw(st.sampled_from(['all', 'none', 'random']))]
        try:
            refmm.parse_and_verify(t)
        except Exception:
            continue
        jid = 'mm%d' % i
        jobs.append({'id': jid, 'kind': 'mm', 'text': t})
        meta[jid] = {'nt': len(mmgen.tvars(goal)) >= 2, 'cls': ['database', 'vars-%d' % len(mmgen.tvars(goal))] + (['database-with-variable-kinds'] if extras else [])}
    extra_seeds = draw(st.lists(st.integers(8, 5000), min_size=3, max_size=3, unique=True))
    return {'jobs': jobs, 'meta': meta, 'extra_seeds': extra_seeds}


def body(c, stats: Stats, tier='quick'):
    import time as _t
    _t0 = _t.time()
    try:
        return _body(c, stats, tier)
    finally:
        if _t.time() - _t0 > 40:
            stats.notes.append('slow batch %.0fs: %s' % (_t.time() - _t0, [[x['kind'] + ':' + str(x.get('app', {}).get('entry', '')) for x in j['desc']['claims']] for j in c['jobs'] if j['kind'] == 'module' and j['id'].endswith('binary-noopt')]))


def _body(c, stats: Stats, tier='quick'):
    jobs = c['jobs']
    seeds = (list(range(3)) + list(c['extra_seeds'])[:1]) if tier == 'quick' else (list(range(64)) + list(c['extra_seeds']))
    doubled = [j for j in jobs for _ in (0, 1)]
    configs = [('order', jobs, s) for s in seeds] + [('reversed', list(reversed(jobs)), seeds[1]), ('doubled', doubled, seeds[2]), ('reversed', list(reversed(jobs)), seeds[-1])]
    results = {}
    for name, joblist, hs in configs:
        out = run_child(joblist, hs)
        for jid, dig in out.items():
            results.setdefault(jid, []).append((name, hs, dig))
    for j in jobs:
        jid = j['id']
        m = c['meta'][jid]
        obs = results.get(jid, [])
        stats.case(json.dumps(j, sort_keys=True), m['nt'], m['cls'] + ['configs-%d' % len(obs)],
                   {'job': jid, 'kind': j['kind'], 'digest': obs[0][2] if obs else None, 'processes': len(obs)})
        if j.get('same_as'):
            # the files written after the module grew must be the files of a fresh build of the grown module
            fresh = results.get(j['same_as'], [])
            if obs and fresh and json.dumps(obs[0][2]) != json.dumps(fresh[0][2]):
                raise Violation('%s: a module serialised, grown (late import / registered notations) and serialised again gives %s, a fresh build of the same module gives %s'
                                % (jid, obs[0][2], fresh[0][2]), {'job': j, 'a': [obs[0][0], obs[0][1]], 'b': [fresh[0][0], fresh[0][1]], 'all_jobs': jobs}, 'history:' + j['fmt'])
        distinct = {json.dumps(d) for _, _, d in obs}
        if len(distinct) > 1:
            first = obs[0]
            other = next(o for o in obs if json.dumps(o[2]) != json.dumps(first[2]))
            raise Violation('%s: outputs differ between (%s, PYTHONHASHSEED=%s) %s and (%s, PYTHONHASHSEED=%s) %s'
                            % (jid, first[0], first[1], first[2], other[0], other[1], other[2]),
                            {'job': j, 'a': [first[0], first[1]], 'b': [other[0], other[1]], 'all_jobs': jobs}, 'differs:' + j['kind'])


def shard(stats: Stats, shard_i, nshards, seed, tier):
    n = {'quick': 2, 'thorough': 12}[tier]
    # the quick tier is bounded by its case count (2 batches per shard); a generous wall-clock budget keeps a loaded machine from
    # silently halving the search (each batch needs several child processes)
    common.run_given(stats, seed, n, batches(), lambda c, s: body(c, s, tier), shrink=False, budget_s=900.0 if tier == 'quick' else None)


def run(tier, t0):
    import glob

    stats = Stats()
    for f in sorted(glob.glob(os.path.join(common.VERIF, 'corpus', PROP, '*.json'))):
        j = json.load(open(f, encoding='utf-8'))
        try:
            replay(j.get('case', j))
            stats.case(f, False, ['corpus'])
        except Violation as v:
            stats.violation(v)
    common.run_sharded(stats, 'checks.c18', 'shard', common.NPROC, tier)
    return common.finish(PROP, tier, stats, RULE, ASSUME, t0)


def replay(case):
    jobs = case['all_jobs']
    seen = {}
    for name, hs in (case['a'], case['b'], ['order', 0], ['order', 1], ['order', 2], ['order', 3]):
        jl = jobs if name == 'order' else (list(reversed(jobs)) if name == 'reversed' else [j for j in jobs for _ in (0, 1)])
        out = run_child(jl, hs)
        seen.setdefault(json.dumps(out.get(case['job']['id'])), []).append((name, hs))
    if len(seen) > 1:
        raise Violation('%s: outputs differ across processes: %s' % (case['job']['id'], list(seen.values())), case, 'differs')
